"""C10 — proposal operations stay within their advertised geometry and are symmetric.

Every `calculate` is loop free over fixed-shape arrays, so one symbolic run covers all inputs
(exact real arithmetic).  Symmetry is proved with a measure-preserving involution T on the
draws: the operation is run a second time on a generator scripted with T(draws); obligations:
T(draws) lies in the support of every requested law, and the second result is the inverse of
the first.
"""
from __future__ import annotations

import z3

from pyvc import ops
from pyvc.models.ase_model import RngModel, det3
from pyvc.models.geom_model import AtomsGeom
from pyvc.models.numpy_model import PI
from pyvc.objects import Builtin, Ext
from pyvc.values import F_arccos, F_cos, F_exp, F_sin, Sym, Tensor, mk, to_z3

OPS = "quansino.operations."


def R(x):
    return to_z3(x, "real")


def make_ctx(I, k=3, script=None, atoms=None):
    rng = RngModel()
    rng.script = script
    atoms = atoms or AtomsGeom(I, k)
    ctx = I.new_obj("quansino.mc.contexts.DisplacementContext", atoms=atoms, rng=rng, _moving_indices=list(range(k)))
    return ctx, rng, atoms


def vec(t):
    return [R(x) for x in t.data]


def calc_framed(I, op, ctx, out):
    """op.calculate(ctx) + ghost: names of attributes of the operation object written by the call"""
    before = dict(op.attrs)
    r = I.call(I.getattr(op, "calculate"), [ctx], {})
    changed = sorted(k for k in set(op.attrs) | set(before) if op.attrs.get(k, None) is not before.get(k, None))
    out.setdefault("state_changed", []).extend(changed)
    return r


def history(I, out, used, fresh, rng_last, atoms=None, k=3):
    """only when calculate wrote something on the operation object: the used object and a fresh one with the same
    parameters are run on the same context and the same draws"""
    if not out.get("state_changed"):
        return
    script = [e[0] for e in rng_last.elems]
    ctxA, _, at = make_ctx(I, k=k, script=list(script), atoms=atoms)
    rA = I.call(I.getattr(used, "calculate"), [ctxA], {})
    ctxB, _, _ = make_ctx(I, k=k, script=list(script), atoms=at)
    rB = I.call(I.getattr(fresh, "calculate"), [ctxB], {})
    out["hist"] = (rA, rB)


def frame_ob(S, fq, i, v, p, tag=""):
    """a proposal is a function of (parameters, context, draws): trivially so when calculate leaves the operation object
    untouched; otherwise the used object must agree with a fresh one"""
    name = f"{fq}#ensures.proposal_depends_on_parameters_context_and_draws_only{tag}@{i}"
    if not v.get("state_changed"):
        S.prove(name, True, kind="ensures")
        return
    rA, rB = v.get("hist", (None, None))
    if not (isinstance(rA, Tensor) and isinstance(rB, Tensor) and rA.shape == rB.shape):
        S.prove(name, False, kind="ensures", why=f"calculate wrote {v['state_changed']} on the operation object and a used object returns {rA!r} where a fresh one returns {rB!r}")
        return
    S.prove(name, z3.And([R(x) == R(y) for x, y in zip(rA.data, rB.data)]), hyps=p.pc, why=f"calculate wrote {v['state_changed']} on the operation object")


def build(S, tier):
    meta = {"assumptions": [
        "group size of Translation/Rotation proofs is k=3 explicit rows (all coordinates, masses and the cell symbolic): bounded in k, unbounded in values",
        "scipy expm contract: det expm(A)=exp(tr A), A symmetric => expm(A) symmetric positive definite, expm(-A)expm(A)=1, expm(0)=1 (TRUSTED, pyvc/models/geom_model.py)",
        "ase euler_rotate contract: angles in DEGREES, proper rotation R about the chosen centre (TRUSTED); that (phi,theta,psi) -> (180-psi, theta, -180-phi) mod 360 yields the inverse zxz rotation is a textbook identity, not re-proved",
        "null sets (end points of half-open supports) are excluded in the involution obligations",
        "lemma instances sin/cos(x +- pi) = -sin/cos(x), exp(x)exp(-x)=1 supplied (Axioms.lean)"],
        "undecided_clauses": ["'uniformly' beyond: the generator's uniform law is pushed through the affine/arccos map shown", "IEEE rounding ('to rounding' clauses are proved exactly)"]}

    # ------------------------------------------------------------------ Box / Sphere / Ball
    def run_disp(I, cls, involute):
        step = I.path.fresh("step")
        I.path.assume(step.t > 0)
        ctx, rng, _ = make_ctx(I)
        op = I.call(I.get_class(OPS + "displacement." + cls), [step], {})
        out = {}
        r1 = calc_framed(I, op, ctx, out)
        el = [e[0] for e in rng.elems]
        out.update(step=step, r1=r1, el=list(rng.elems), draws=list(rng.draws))
        if involute:
            script, side = involute(I, el, step)
            for h in side:
                I.path.assume(h)
            ctx2, rng2, _ = make_ctx(I, script=script)
            out["r2"] = calc_framed(I, op, ctx2, out)
        history(I, out, op, I.call(I.get_class(OPS + "displacement." + cls), [step], {}), rng)
        return out

    def inv_box(I, el, step):
        return [ops.unop(I, "USub", e) for e in el], [R(e) > -step.t for e in el]

    def inv_polar(I, el, step):
        # draws are (r, phi, c) for Ball and (phi, c) for Sphere
        phi, c = el[-2], el[-1]
        phi2 = mk(z3.If(R(phi) < PI.t, R(phi) + PI.t, R(phi) - PI.t))
        side = [R(c) > -1, F_cos(R(phi2)) == -F_cos(R(phi)), F_sin(R(phi2)) == -F_sin(R(phi))]
        return list(el[:-2]) + [phi2, ops.unop(I, "USub", c)], side

    for cls, inv in (("Box", inv_box), ("Sphere", inv_polar), ("Ball", inv_polar)):
        fq = f"{OPS}displacement.{cls}.calculate"
        paths = S.explore(lambda I, c=cls, v=inv: run_disp(I, c, v), fq)
        S.register_function(S.new_interp(), fq, len(paths))
        for i, p in enumerate(paths):
            S.adopt(p, prefix=f"{cls}:")
            if p.status == "unsupported":
                continue
            if p.status != "return":
                S.prove(f"{fq}#noraise@{i}", False, kind="noraise", why=f"raises {p.exc!r}")
                continue
            v = p.value
            frame_ob(S, fq, i, v, p)
            r1, s = v["r1"], v["step"].t
            okshape = isinstance(r1, Tensor) and r1.shape == (1, 3)
            S.prove(f"{fq}#ensures.shape_1x3@{i}", okshape, kind="ensures", why=f"result {r1!r}")
            if not okshape:
                continue
            x, y, z = vec(r1)
            n2 = x * x + y * y + z * z
            rinfo = {"native": "C10", "kind": "displacement", "syms": {"step": v["step"], "draws": Tensor((len(v["el"]),), [e[0] for e in v["el"]])}, "extra": {"op": cls}}
            if cls == "Box":
                S.prove(f"{fq}#ensures.components_within_step@{i}", z3.And([z3.And(c >= -s, c <= s) for c in (x, y, z)]), hyps=p.pc).info["replay"] = rinfo
                S.prove(f"{fq}#ensures.law_uniform_pm_step@{i}", all(l[0] == "uniform" for l in v["draws"]) and len(v["el"]) == 3, kind="ensures")
                S.prove(f"{fq}#ensures.support@{i}", z3.And([z3.And(R(lo) == -s, R(hi) == s) for _, lo, hi in v["el"]]), hyps=p.pc)
            elif cls == "Sphere":
                S.prove(f"{fq}#ensures.norm_equals_step@{i}", n2 == s * s, hyps=p.pc).info["replay"] = rinfo
            else:
                S.prove(f"{fq}#ensures.norm_at_most_step@{i}", n2 <= s * s, hyps=p.pc).info["replay"] = rinfo
                r = R(v["el"][0][0])
                S.prove(f"{fq}#ensures.norm_equals_radius_draw@{i}", n2 == r * r, hyps=p.pc)
            if cls in ("Sphere", "Ball"):
                # direction: z/|v| is the uniform cosine draw, azimuth is the uniform angle draw over a full period
                phi_lo, phi_hi = v["el"][-2][1], v["el"][-2][2]
                c_lo, c_hi = v["el"][-1][1], v["el"][-1][2]
                S.prove(f"{fq}#ensures.azimuth_full_period_cosine_full_range@{i}",
                        z3.And(R(phi_hi) - R(phi_lo) == 2 * PI.t, R(c_lo) == -1, R(c_hi) == 1), hyps=p.pc)
            r2 = v["r2"]
            S.prove(f"{fq}#ensures.symmetric_proposal@{i}", z3.And([b == -a for a, b in zip(vec(r1), vec(r2))]), hyps=p.pc).info["replay"] = rinfo

    # ------------------------------------------------------------------ Translation / Rotation / TranslationRotation
    def run_group(I, cls, k=3):
        ctx, rng, atoms = make_ctx(I, k=k)
        I.path.assume(R(atoms.cell.volume(I)) > 0)
        op = I.call(I.get_class(OPS + "displacement." + cls), [], {})
        out = {}
        r = calc_framed(I, op, ctx, out)
        elems = list(rng.elems)
        history(I, out, op, I.call(I.get_class(OPS + "displacement." + cls), [], {}), rng, atoms=atoms, k=k)
        rng.elems = elems
        return dict(out, r=r, atoms=atoms, rng=rng, k=k)

    def new_positions(I, v):
        at, r, k = v["atoms"], v["r"], v["k"]
        out = []
        for i in range(k):
            row = []
            for d in range(3):
                dv = r.get((i if r.shape[0] == k and k > 1 else 0, d)) if r.shape[0] in (1, k) else None
                row.append(R(at.positions.get((i, d))) + R(dv))
            out.append(row)
        return out

    def rigid(I, v):
        at, k = v["atoms"], v["k"]
        newp = new_positions(I, v)
        cl = []
        for i in range(k):
            for j in range(i + 1, k):
                d_old = sum((R(at.positions.get((i, d))) - R(at.positions.get((j, d)))) ** 2 for d in range(3))
                d_new = sum((newp[i][d] - newp[j][d]) ** 2 for d in range(3))
                cl.append(d_old == d_new)
        return z3.And(cl)

    for cls in ("Translation", "Rotation", "TranslationRotation"):
        fq = f"{OPS}displacement.{cls}.calculate"
        paths = S.explore(lambda I, c=cls: run_group(I, c), fq)
        S.register_function(S.new_interp(), fq, len(paths))
        for i, p in enumerate(paths):
            S.adopt(p, prefix=f"{cls}:")
            if p.status == "unsupported":
                continue
            if p.status != "return":
                S.prove(f"{fq}#noraise@{i}", False, kind="noraise", why=f"raises {p.exc!r}")
                continue
            v = p.value
            frame_ob(S, fq, i, v, p)
            r, at, k, rng = v["r"], v["atoms"], v["k"], v["rng"]
            okshape = isinstance(r, Tensor) and r.ndim == 2 and r.shape[1] == 3 and r.shape[0] in (1, k)
            S.prove(f"{fq}#ensures.shape@{i}", okshape, kind="ensures", why=f"result {r!r}")
            if not okshape:
                continue
            mols = at.molecules
            rc = [c for m in mols for c in m.rot_calls]
            if rc:
                # |new_i - new_j|^2 = |p_i - p_j|^2 by the certificate sum_xy a_x a_y (R^T R - 1)_xy
                Rm = rc[0]["R"]
                newp = new_positions(p.interp, v)
                for a_ in range(k):
                    for b_ in range(a_ + 1, k):
                        a = [R(at.positions.get((a_, d))) - R(at.positions.get((b_, d))) for d in range(3)]
                        lhs = sum((newp[a_][d] - newp[b_][d]) ** 2 for d in range(3))
                        rhs = sum(x * x for x in a)
                        cert = []
                        for x in range(3):
                            for y in range(3):
                                H = sum(R(Rm.get((r_, x))) * R(Rm.get((r_, y))) for r_ in range(3)) - (1 if x == y else 0)
                                cert.append((a[x] * a[y], H))
                        S.prove_poly(f"{fq}#ensures.rigid[{a_},{b_}]@{i}", lhs, rhs, cert, hyps=p.pc)
            else:
                S.prove(f"{fq}#ensures.rigid@{i}", rigid(p.interp, v), hyps=p.pc)
            if cls in ("Translation", "TranslationRotation"):
                # centroid lands at u @ cell with u the three uniform [0,1) draws
                u = [e for e in rng.elems if R(e[1]).eq(z3.RealVal(0)) and R(e[2]).eq(z3.RealVal(1))][:3]
                S.prove(f"{fq}#ensures.three_unit_uniform_draws@{i}", len(u) == 3, kind="ensures")
                if len(u) == 3 and cls == "Translation":
                    newp = new_positions(p.interp, v)
                    cl = []
                    for d in range(3):
                        cen = sum(newp[a][d] for a in range(k)) / k
                        tgt = sum(R(u[a][0]) * R(at.cell.array.get((a, d))) for a in range(3))
                        cl.append(cen == tgt)
                    S.prove(f"{fq}#ensures.centroid_uniform_in_cell@{i}", z3.And(cl), hyps=p.pc)
            if cls in ("Rotation", "TranslationRotation"):
                calls = [c for m in mols for c in m.rot_calls]
                S.prove(f"{fq}#ensures.one_rotation_about_COM@{i}", len(calls) == 1 and calls[0]["center"] == "COM", kind="ensures",
                        why=f"euler_rotate calls: {[(c['center']) for c in calls]}")
                if len(calls) == 1:
                    c = calls[0]
                    # orientation law (Euler form of the Haar measure), angles in degrees
                    deg = [e for e in rng.elems if R(e[2]).eq(z3.RealVal(360)) or z3.simplify(R(e[2]) - R(e[1]) == 360).eq(z3.BoolVal(True))]
                    cosd = [e for e in rng.elems if z3.simplify(z3.And(R(e[1]) == -1, R(e[2]) == 1)).eq(z3.BoolVal(True))]
                    S.prove(f"{fq}#ensures.orientation_draw_shapes@{i}", len(deg) == 2 and len(cosd) == 1, kind="ensures",
                            why=f"full-period degree draws={len(deg)} cosine draws={len(cosd)} of {[(str(R(e[1])), str(R(e[2]))) for e in rng.elems]}")
                    if len(deg) == 2 and len(cosd) == 1:
                        th = F_arccos(R(cosd[0][0])) * 180 / PI.t
                        S.prove(f"{fq}#ensures.euler_angles_haar_in_degrees@{i}",
                                z3.And(z3.Or(z3.And(R(c["phi"]) == R(deg[0][0]), R(c["psi"]) == R(deg[1][0])),
                                             z3.And(R(c["phi"]) == R(deg[1][0]), R(c["psi"]) == R(deg[0][0]))),
                                       R(c["theta"]) == th), hyps=p.pc)
                if cls == "Rotation":
                    # centre of mass kept: sum_i m_i d_i = 0, certificate over the COM definition D = c*M - sum m p
                    mol = mols[0] if mols else None
                    for d in range(3):
                        lhs = sum(R(at.masses.get((a,))) * R(r.get((a, d))) for a in range(k))
                        if mol is not None and rc and hasattr(mol, "com_defs"):
                            Rm = rc[0]["R"]
                            cert = [(-R(Rm.get((d, x))), mol.com_defs[x]) for x in range(3)] + [(z3.RealVal(1), mol.com_defs[d])]
                            S.prove_poly(f"{fq}#ensures.centre_of_mass_kept[{d}]@{i}", lhs, z3.RealVal(0), cert, hyps=p.pc)
                        else:
                            S.prove(f"{fq}#ensures.centre_of_mass_kept[{d}]@{i}", lhs == 0, hyps=p.pc)

    # ------------------------------------------------------------------ composite operation = sum of parts
    class OpaqueOp(Ext):
        type_name = "Operation(opaque)"

        def __init__(self, name, log):
            self.name, self.log, self.out, self.outs = name, log, None, []

        def py_getattr(self, I, name):
            if name == "calculate":
                def calc(I_, a, k):
                    self.log.append(self.name)
                    self.out = Tensor((1, 3), [I_.path.fresh(f"{self.name}_{len(self.outs)}_{d}") for d in range(3)])
                    self.outs.append(self.out)
                    return self.out
                return Builtin("calculate", calc)
            raise AttributeError(name)

    def run_comp(I):
        log = []
        parts = [OpaqueOp(f"op{j}", log) for j in range(3)]
        parts = parts + [parts[0]]        # the same operation object may occur twice (op * n): evaluated twice, independently
        comp = I.call(I.get_class(OPS + "composite.CompositeOperation"), [parts], {})
        ctx, _, _ = make_ctx(I)
        r = I.call(I.getattr(comp, "calculate"), [ctx], {})
        return dict(r=r, parts=parts, log=log)

    fq = OPS + "composite.CompositeOperation.calculate"
    paths = S.explore(run_comp, fq)
    S.register_function(S.new_interp(), fq, len(paths))
    for i, p in enumerate(paths):
        S.adopt(p)
        if p.status != "return":
            if p.status != "unsupported":
                S.prove(f"{fq}#noraise@{i}", False, kind="noraise", why=f"raises {p.exc!r}")
            continue
        v = p.value
        r = v["r"]
        ok = isinstance(r, Tensor) and r.shape == (1, 3)
        S.prove(f"{fq}#ensures.each_part_once_in_order@{i}", v["log"] == ["op0", "op1", "op2", "op0"], kind="ensures", why=str(v["log"]))
        S.prove(f"{fq}#ensures.shape@{i}", ok, kind="ensures")
        if ok:
            outs = [o for q in v["parts"][:3] for o in q.outs]
            S.prove(f"{fq}#ensures.sum_of_parts@{i}", z3.And([R(r.get((0, d))) == sum(R(o.get((0, d))) for o in outs) for d in range(3)] + [z3.BoolVal(len(outs) == 4)]), hyps=p.pc)

    # the same real operation object twice in one composite (`op * 2`, `a + b + a`): two independent draws are added
    for cls in ("Box", "Ball", "Sphere"):
        def run_twice(I, cls=cls):
            step = I.path.fresh("step")
            I.path.assume(step.t > 0)
            part = I.call(I.get_class(OPS + "displacement." + cls), [step], {})
            comp = I.call(I.getattr(part, "__mul__"), [2], {})
            ctx, rng, _ = make_ctx(I)
            r = I.call(I.getattr(comp, "calculate"), [ctx], {})
            n1 = len(rng.elems)
            # the two single proposals on the same draws, from fresh objects
            half = n1 // 2
            vals = [e[0] for e in rng.elems]
            singles = []
            for chunk in (vals[:half], vals[half:]):
                ctx2, _, _ = make_ctx(I, script=list(chunk))
                singles.append(I.call(I.getattr(I.call(I.get_class(OPS + "displacement." + cls), [step], {}), "calculate"), [ctx2], {}))
            return dict(r=r, singles=singles, n=n1)

        fq = f"{OPS}composite.CompositeOperation.calculate[{cls} * 2]"
        for i, p in enumerate(S.explore(run_twice, fq)):
            S.adopt(p, prefix=f"{cls}*2:")
            if p.status != "return":
                if p.status == "raise":
                    S.prove(f"{fq}#noraise@{i}", False, kind="noraise", why=f"raises {p.exc!r}")
                continue
            v = p.value
            ok = isinstance(v["r"], Tensor) and all(isinstance(x, Tensor) and x.shape == v["r"].shape for x in v["singles"]) and v["n"] % 2 == 0
            S.prove(f"{fq}#ensures.same_object_twice_gives_two_independent_proposals.shape@{i}", ok, kind="ensures")
            if ok:
                a_, b_ = v["singles"]
                S.prove(f"{fq}#ensures.same_object_twice_gives_the_sum_of_two_independent_proposals@{i}",
                        z3.And([R(x) == R(y) + R(z_) for x, y, z_ in zip(v["r"].data, a_.data, b_.data)]), hyps=p.pc)

    # ------------------------------------------------------------------ deformations
    def run_def(I, cls, masked, involute=True):
        mx = I.path.fresh("max_value")
        I.path.assume(mx.t > 0)
        if cls == "IsotropicDeformation":
            I.path.assume(mx.t <= 700)     # requires: math.exp of a strain beyond 709.78 overflows (documented precondition)
        mask = None
        if masked:
            mask = Tensor((3, 3), [I.path.fresh(f"mask{i}{j}", "bool") for i in range(3) for j in range(3)], "bool")
        ctx, rng, _ = make_ctx(I)
        op = I.call(I.get_class(OPS + "cell." + cls), [mx], {"mask": mask} if masked else {})
        out = {}
        F1 = calc_framed(I, op, ctx, out)
        expm = I.loader.models["scipy.linalg"].attrs["expm"]
        out.update(F1=F1, mx=mx, mask=mask, el=list(rng.elems), draws=list(rng.draws), expm_args=[A for A, _ in expm.calls])
        if involute and not masked:
            el = [e[0] for e in rng.elems]
            for e in el:
                I.path.assume(R(e) > -mx.t)
            ctx2, rng2, _ = make_ctx(I, script=[ops.unop(I, "USub", e) for e in el])
            out["F2"] = calc_framed(I, op, ctx2, out)
        history(I, out, op, I.call(I.get_class(OPS + "cell." + cls), [mx], {"mask": mask} if masked else {}), rng)
        return out

    # ---- the same operation after a trip through to_dict / from_dict (restart, copy), and a default-constructed operation
    # after ANOTHER default-constructed one had its public mask edited in place: same proposal for the same draws
    def run_def_variant(I, cls, variant):
        mx = I.path.fresh("max_value")
        I.path.assume(mx.t > 0)
        if cls == "IsotropicDeformation":
            I.path.assume(mx.t <= 700)
        K = I.get_class(OPS + "cell." + cls)
        if variant == "round trip":
            mask = Tensor((3, 3), [I.path.fresh(f"mask{i}{j}", "bool") for i in range(3) for j in range(3)], "bool")
            ref = I.call(K, [mx], {"mask": mask})
            op = I.call(I.getattr(K, "from_dict"), [I.call(I.getattr(ref, "to_dict"), [], {})], {})
        else:
            other = I.call(K, [mx], {})
            I.setitem(I.getattr(other, "mask"), (slice(None), slice(None)), False)          # the user switches every component of THAT operation off
            op = I.call(K, [mx], {})
            ref = I.call(K, [mx], {"mask": Tensor((3, 3), [True] * 9, "bool")})
        ctxA, rngA, at = make_ctx(I)
        FA = I.call(I.getattr(ref, "calculate"), [ctxA], {})
        ctxB, _, _ = make_ctx(I, script=[e[0] for e in rngA.elems], atoms=at)
        FB = I.call(I.getattr(op, "calculate"), [ctxB], {})
        return dict(FA=FA, FB=FB)

    for cls in ("IsotropicDeformation", "AnisotropicDeformation", "ShapeDeformation"):
        fq = f"{OPS}cell.{cls}.calculate"
        for variant, clause in (("round trip", "same_proposal_after_to_dict_from_dict"), ("other default instance edited", "default_constructed_operations_do_not_share_their_mask")):
            for i, p in enumerate(S.explore(lambda I, c=cls, v_=variant: run_def_variant(I, c, v_), f"{fq}[{variant}]")):
                S.adopt(p, prefix=f"{cls}[{variant}]:")
                if p.status == "unsupported":
                    continue
                if p.status != "return":
                    S.prove(f"{fq}#noraise[{variant}]@{i}", False, kind="noraise", why=f"raises {p.exc!r}")
                    continue
                FA, FB = p.value["FA"], p.value["FB"]
                ok = isinstance(FA, Tensor) and isinstance(FB, Tensor) and FA.shape == FB.shape == (3, 3)
                S.prove(f"{fq}#ensures.{clause}@{i}", z3.And([R(x) == R(y) for x, y in zip(FA.data, FB.data)]) if ok else False, hyps=p.pc if ok else (), kind="ensures",
                        why=f"{FA!r} vs {FB!r}" if not ok else "")

    for cls in ("IsotropicDeformation", "AnisotropicDeformation", "ShapeDeformation"):
        fq = f"{OPS}cell.{cls}.calculate"
        for masked in (False, True):
            tag = "mask" if masked else "default"
            paths = S.explore(lambda I, c=cls, m=masked: run_def(I, c, m), f"{fq}[{tag}]")
            if not masked:
                S.register_function(S.new_interp(), fq, len(paths))
            for i, p in enumerate(paths):
                S.adopt(p, prefix=f"{cls}[{tag}]:")
                if p.status == "unsupported":
                    continue
                if p.status != "return":
                    S.prove(f"{fq}#noraise[{tag}]@{i}", False, kind="noraise", why=f"raises {p.exc!r}")
                    continue
                v = p.value
                frame_ob(S, fq, i, v, p, f"[{tag}]")
                F = v["F1"]
                ok = isinstance(F, Tensor) and F.shape == (3, 3)
                S.prove(f"{fq}#ensures.shape_3x3[{tag}]@{i}", ok, kind="ensures", why=f"{F!r}")
                if not ok:
                    continue
                g = lambda T, a, b: R(T.get((a, b)))
                lem = []
                for a in (z3.simplify(g(F, 0, 0)),):
                    pass
                S.prove(f"{fq}#ensures.support_pm_max_value[{tag}]@{i}", z3.And([z3.And(R(lo) == -v["mx"].t, R(hi) == v["mx"].t) for _, lo, hi in v["el"]] or [z3.BoolVal(False)]), hyps=p.pc)
                if cls != "IsotropicDeformation":
                    # structural (ground) clauses on the argument handed to expm
                    As = v["expm_args"]
                    S.prove(f"{fq}#call.expm_once[{tag}]@{i}", len(As) == 1, kind="call.pre", why=f"{len(As)} expm calls")
                    if len(As) == 1:
                        A = As[0]
                        symm = all(z3.simplify(g(A, a, b) - g(A, b, a) == 0).eq(z3.BoolVal(True)) for a in range(3) for b in range(a + 1, 3))
                        S.prove(f"{fq}#call.expm_argument_symmetric[{tag}]@{i}", symm, kind="call.pre", why="the matrix handed to expm is not symmetric")
                        drawset = {str(R(e[0])) for e in v["el"]}
                        offd = {str(z3.simplify(g(A, a, b))) for a in range(3) for b in range(a + 1, 3)}
                        S.prove(f"{fq}#call.expm_offdiagonals_are_distinct_draws[{tag}]@{i}", len(offd) == 3 and offd <= drawset, kind="call.pre", why=str(offd))
                        if cls == "ShapeDeformation":
                            S.prove(f"{fq}#call.expm_argument_traceless[{tag}]@{i}", g(A, 0, 0) + g(A, 1, 1) + g(A, 2, 2) == 0, hyps=p.pc, kind="call.pre")
                        else:
                            diag = {str(z3.simplify(g(A, a, a))) for a in range(3)}
                            S.prove(f"{fq}#call.expm_diagonal_are_distinct_draws[{tag}]@{i}", len(diag) == 3 and diag <= drawset and not (diag & offd), kind="call.pre", why=str(diag))
                if masked:
                    M = v["mask"]
                    S.prove(f"{fq}#ensures.identity_where_masked_out@{i}",
                            z3.And([z3.Implies(z3.Not(M.get((a, b)).t), g(F, a, b) == (1 if a == b else 0)) for a in range(3) for b in range(3)]), hyps=p.pc)
                    continue
                sym = z3.And([g(F, a, b) == g(F, b, a) for a in range(3) for b in range(a + 1, 3)])
                pd = z3.And(g(F, 0, 0) > 0, g(F, 0, 0) * g(F, 1, 1) - g(F, 0, 1) * g(F, 1, 0) > 0, R(det3(p.interp, F)) > 0)
                S.prove(f"{fq}#ensures.symmetric_positive_definite@{i}", z3.And(sym, pd), hyps=p.pc)
                if cls == "IsotropicDeformation":
                    S.prove(f"{fq}#ensures.scalar_times_identity@{i}",
                            z3.And([g(F, a, b) == (g(F, 0, 0) if a == b else 0) for a in range(3) for b in range(3)] + [g(F, 0, 0) > 0]), hyps=p.pc)
                    S.prove(f"{fq}#ensures.log_uniform_scale@{i}", z3.And(len(v["el"]) == 1, g(F, 0, 0) == F_exp(R(v["el"][0][0])) if v["el"] else False), hyps=p.pc)
                if cls == "ShapeDeformation":
                    S.prove(f"{fq}#ensures.volume_preserving@{i}", R(det3(p.interp, F)) == 1, hyps=p.pc)
                F2 = v.get("F2")
                if isinstance(F2, Tensor) and F2.shape == (3, 3):
                    P = ops.matmul(p.interp, F2, F)
                    hy = list(p.pc)
                    if cls == "IsotropicDeformation" and v["el"]:
                        x = R(v["el"][0][0])
                        hy.append(F_exp(x) * F_exp(-x) == 1)
                    S.prove(f"{fq}#ensures.symmetric_proposal@{i}", z3.And([R(P.get((a, b))) == (1 if a == b else 0) for a in range(3) for b in range(3)]), hyps=hy)
    return meta
