"""C15 — observers fire on schedule and splitting a run does not change it.

Driver.call_observers is executed on k=3 observers with symbolic intervals.  Driver.irun is a
generator with an unbounded loop: it is cut by a loop contract (prologue obligations, ONE generic
iteration from an arbitrary loop state, exit obligations).  The four entry points (Driver.run
with an eager step, MonteCarlo.run, MonteCarlo.srun, irun iterated by the caller) are the real
consumer code driving that same generator.  Run-splitting equivalence is a lemma over the
per-call summaries proved here.
"""
from __future__ import annotations

import z3

from pyvc import ops
from pyvc.models.ase_model import AtomsScalar
from pyvc.objects import Builtin, Ext, GeneratorVal, Obj
from pyvc.solver import CutPath, Unsupported
from pyvc.values import PyExc, Sym, to_z3

DRV = "quansino.mc.driver.Driver"
MC = "quansino.mc.core.MonteCarlo"


def sched(iv, k):
    """the statement's schedule: positive interval n -> every multiple of n; negative -n -> exactly step n"""
    return z3.Or(z3.And(iv > 0, k % iv == 0), z3.And(iv < 0, k == -iv))


class ObsProbe(Ext):
    type_name = "Observer(probe)"

    def __init__(self, name, interval, log, sim):
        self.name, self.interval, self.log, self.sim = name, interval, log, sim

    def py_getattr(self, I, name):
        if name == "interval":
            return self.interval
        if name == "close":
            return Builtin("close", lambda I_, a, k: None)
        raise AttributeError(name)

    def py_call(self, I, args, kwargs):
        self.log.append(("observer", self.name, self.sim[0].attrs["step_count"]))


class LoggerProbe(Ext):
    type_name = "Logger(probe)"

    def __init__(self, log, sim):
        self.log, self.sim = log, sim

    def py_truth(self, I):
        return True

    def py_getattr(self, I, name):
        if name == "write_header":
            return Builtin("write_header", lambda I_, a, k: self.log.append(("header", self.sim[0].attrs["step_count"])))
        if name == "file":
            return LogStreamProbe()
        raise AttributeError(name)


class LogStreamProbe(Ext):
    """the stream behind the default logger: ANY stream, in particular one that already holds text (the default logging mode
    is append; a user's stream may carry a preamble): its position is an arbitrary non-negative integer, it may or may not
    be seekable.  Nothing else of it is modelled (other attributes are out of reach)."""
    type_name = "stream(any content so far)"

    def py_getattr(self, I, name):
        if name == "tell":
            def tell(I_, a, k):
                pos = I_.path.fresh("bytes_already_in_the_log", "int")
                I_.path.assume(pos.t >= 0)
                return pos
            return Builtin("stream.tell", tell)
        if name == "seekable":
            return Builtin("stream.seekable", lambda I_, a, k: I_.path.fresh("log_stream_seekable", "bool"))
        raise Unsupported(f"log stream: attribute {name!r} is not modelled")


class StepToken(Ext):
    """what step() returns for Monte Carlo drivers: a lazy generator; its body runs when iterated"""
    type_name = "generator(step)"

    def __init__(self, log, sim):
        self.log, self.sim = log, sim
        self.consumed = 0

    def py_iter(self, I):
        self.consumed += 1
        self.log.append(("step_body", self.sim[0].attrs["step_count"]))
        return iter([])


def build(S, tier):
    meta = {"assumptions": [
        "A6: the consumer of irun/srun does not mutate the simulation between yields",
        "the loop of irun is abstracted by one generic iteration from an arbitrary loop state satisfying the invariant (step_count in [s0, max_steps] when steps >= 0); induction over iterations is the standard loop rule",
        "observer tables of k=3 observers (intervals symbolic); several observers of the same kind are instances",
        "the per-observer summary of one irun call (prologue + one call after every step in (s0, s0+steps]) follows from the prologue/iteration/exit obligations by induction; the split lemma is proved over that summary"],
        "undecided_clauses": []}

    # ------------------------------------------------------------------ call_observers
    def run_obs(I):
        atoms = AtomsScalar(I.path.fresh("n", "int"))
        mc = I.call(I.get_class(MC), [atoms], {"seed": 1})
        s = I.path.fresh("s", "int")
        I.path.assume(s.t >= 0)
        mc.attrs["step_count"] = s
        # whatever an earlier irun / run call left in the attributes it writes (start of that run, its limit, flags) must
        # not matter: the schedule is a function of the current step count and the intervals
        import ast as _ast
        irun = I.get_function(DRV + ".irun")
        for n_ in _ast.walk(irun.node):
            if isinstance(n_, (_ast.Assign, _ast.AugAssign, _ast.AnnAssign)):
                for t_ in (n_.targets if isinstance(n_, _ast.Assign) else [n_.target]):
                    if isinstance(t_, _ast.Attribute) and isinstance(t_.value, _ast.Name) and t_.value.id == "self" and t_.attr != "step_count" and t_.attr in mc.attrs:
                        cur = mc.attrs[t_.attr]
                        mc.attrs[t_.attr] = I.path.fresh("left_by_an_earlier_run_" + t_.attr, "bool" if isinstance(cur, bool) else "int")
        log, ref = [], [mc]
        ivs = []
        for j in range(3):
            iv = I.path.fresh(f"iv{j}", "int")
            ivs.append(iv)
            mc.attrs["file_manager"].attrs["observers"][f"o{j}"] = ObsProbe(f"o{j}", iv, log, ref)
        I.call(I.getattr(mc, "call_observers"), [], {})
        return dict(log=log, ivs=ivs, s=s)

    fq = DRV + ".call_observers"
    paths = S.explore(run_obs, fq, max_paths=600)
    S.register_function(S.new_interp(), fq, len(paths))
    for i, p in enumerate(paths):
        S.adopt(p)
        if p.status == "unsupported":
            continue
        if p.status != "return":
            S.prove(f"{fq}#noraise@{i}", False, kind="noraise", why=f"raises {p.exc!r}")
            continue
        v = p.value
        called = [e[1] for e in v["log"]]
        S.prove(f"{fq}#ensures.at_most_once_each_in_table_order@{i}", called == sorted(set(called)), kind="ensures", why=str(called))
        cl = []
        for j, iv in enumerate(v["ivs"]):
            sc = sched(iv.t, v["s"].t)
            cl.append(sc if f"o{j}" in called else z3.Not(sc))
        S.prove(f"{fq}#ensures.called_iff_scheduled@{i}", z3.And(cl), hyps=p.pc)

    # ------------------------------------------------------------------ irun through its consumers
    def loop_contract(I, node, frame):
        drv = frame.locals["self"]
        g = I.path.ghost
        s0, steps = g["s0"], g["steps"]
        ms = drv.attrs["max_steps"]
        g["prologue_log"] = list(g["log"])
        g["prologue_state"] = dict(step_count=drv.attrs["step_count"], max_steps=ms, flag=drv.attrs.get("_initial_observers_called"))
        # invariant: s0 <= step_count, and step_count <= max_steps whenever steps >= 0
        def inv():
            sc = to_z3(drv.attrs["step_count"], "int")
            return z3.And(sc >= s0.t, z3.Implies(steps.t >= 0, sc <= to_z3(ms, "int")))
        I.path.oblige(DRV + ".irun#loop[0].init", inv(), kind="loop")
        sc = I.path.fresh("sc", "int")
        drv.attrs["step_count"] = sc
        I.path.assume(inv())
        del g["log"][:]
        if I.truth(I.eval(node.test, frame)):
            g["iter_sc"] = sc
            yield from I.exec_loop_body(node, frame)
            I.path.oblige(DRV + ".irun#loop[0].preserve", inv(), kind="loop")
            g["iter_log"] = list(g["log"])
            g["iter_after"] = drv.attrs["step_count"]
            g["kind"] = "iteration"
            raise CutPath()
        g["kind"] = "exit"
        g["exit_sc"] = sc

    def make_driver(I, eager, unrolled=None):
        atoms = AtomsScalar(I.path.fresh("n", "int"))
        mc = I.call(I.get_class(MC), [atoms], {"seed": 1})
        log, ref = [], [mc]
        I.path.ghost["log"] = log
        mc.attrs["_default_logger"] = LoggerProbe(log, ref)
        s0, steps = I.path.fresh("s0", "int"), (I.path.fresh("steps", "int") if unrolled is None else unrolled)
        flag = I.path.fresh("flag0", "bool")
        I.path.assume(s0.t >= 0)
        mc.attrs["step_count"] = s0
        mc.attrs["_initial_observers_called"] = flag
        mc.attrs["max_steps"] = I.path.fresh("max_steps_left_by_an_earlier_run", "int")        # e.g. an interrupted run that never reached its target
        I.path.ghost.update(s0=s0, steps=steps, flag0=flag)

        def step_contract(I_, fv, args, kwargs):
            log.append(("step_call", args[0].attrs["step_count"]))
            if eager:
                log.append(("step_body", args[0].attrs["step_count"]))
                return ("forces",)
            return StepToken(log, ref)

        def obs_contract(I_, fv, args, kwargs):
            log.append(("call_observers", args[0].attrs["step_count"]))
            if I_.path.ghost.get("observer_round_fails_once"):
                I_.path.ghost["observer_round_fails_once"] = False
                raise PyExc("RuntimeError", ("a user observer failed",))

        def validate_contract(I_, fv, args, kwargs):
            log.append(("validate", args[0].attrs["step_count"]))

        I.contracts[MC + ".step"] = step_contract
        I.contracts[DRV + ".step"] = step_contract
        I.contracts[DRV + ".call_observers"] = obs_contract
        I.contracts[MC + ".validate_simulation"] = validate_contract
        if unrolled is None:
            I.loop_contracts[(DRV + ".irun", 0)] = loop_contract
        return mc, s0, steps, flag, log

    entries = {
        "Driver.run(eager step)": ("run_base", True),
        "MonteCarlo.run": ("run", False),
        "MonteCarlo.srun": ("srun", False),
        "irun iterated by the caller": ("irun", False),
    }
    for ename, (how, eager) in entries.items():
        def run_entry(I, how=how, eager=eager, unrolled=None):
            mc, s0, steps, flag, log = make_driver(I, eager, unrolled)
            if unrolled is not None:
                I.hooks["max_unroll"] = unrolled + 4          # a loop that runs longer than that has already performed too many steps
            if how == "run_base":
                I.call(I.get_function(DRV + ".run"), [mc, steps], {})
            elif how == "run":
                I.call(I.getattr(mc, "run"), [steps], {})
            elif how == "srun":
                for _ in I.iterate(I.call(I.getattr(mc, "srun"), [steps], {})):
                    pass
            else:
                for st in I.iterate(I.call(I.getattr(mc, "irun"), [steps], {})):
                    for _ in I.iterate(st):
                        pass
            return dict(mc=mc, log=log, s0=s0, flag=flag)

        # ---- "the log header is written once": also when the round of step 0 fails (a user observer raises), the caller
        # catches the error and runs again
        def run_after_failed_round(I, how=how, eager=eager):
            mc, s0, steps, flag, log = make_driver(I, eager, 1)
            I.hooks["max_unroll"] = 5
            I.path.assume(z3.And(s0.t == 0, z3.Not(flag.t)))
            I.path.ghost["observer_round_fails_once"] = True

            def go():
                if how == "run_base":
                    I.call(I.get_function(DRV + ".run"), [mc, 1], {})
                elif how == "run":
                    I.call(I.getattr(mc, "run"), [1], {})
                elif how == "srun":
                    for _ in I.iterate(I.call(I.getattr(mc, "srun"), [1], {})):
                        pass
                else:
                    for st in I.iterate(I.call(I.getattr(mc, "irun"), [1], {})):
                        for _ in I.iterate(st):
                            pass
            try:
                go()
                failed = False
            except PyExc as e:
                failed = e.cls_name == "RuntimeError"
            go()
            return dict(log=log, failed=failed)

        flabel = f"run again after the round of step 0 failed, via {ename}"
        for i, p in enumerate(S.explore(run_after_failed_round, flabel)):
            S.adopt(p, prefix=f"[{ename}, failed round]")
            if p.status == "unsupported":
                continue
            if p.status != "return":
                S.prove(f"{flabel}#noraise@{i}", False, kind="noraise", why=f"raises {p.exc!r}")
                continue
            heads = [e for e in p.value["log"] if e[0] == "header"]
            S.prove(f"{flabel}#cover.the_failure_reached_the_caller@{i}", p.value["failed"], kind="cover")
            S.prove(f"{flabel}#ensures.header_written_once@{i}", len(heads) == 1, kind="ensures", why=str([e[0] for e in p.value["log"]]))

        # ---- the statement itself for runs of N = 0..3 steps from an arbitrary start (the real loop is executed, no loop
        # contract): the observable trace -- header, observer rounds with the step number they see, step bodies -- is the
        # one the statement prescribes, whatever the shape of the loop that produces it
        for N in (0, 1, 2, 3):
            ulabel = f"{N} steps via {ename}"
            upaths = S.explore(lambda I, N=N: run_entry(I, unrolled=N), ulabel)
            for i, p in enumerate(upaths):
                S.adopt(p, prefix=f"[{ename}, {N} steps]")
                if p.status == "unsupported":
                    continue
                if p.status != "return":
                    S.prove(f"{ulabel}#noraise@{i}", False, kind="noraise", why=f"raises {p.exc!r}")
                    continue
                v = p.value
                s0z, fl0 = v["s0"].t, v["flag"].t
                tr = [e for e in v["log"] if e[0] in ("header", "call_observers", "step_body")]
                first = z3.And(s0z == 0, z3.Not(fl0))
                rest = [("step_body", j) if b == 0 else ("call_observers", j + 1) for j in range(N) for b in (0, 1)]
                hy = list(p.pc)

                def matches(trace, want):
                    if [e[0] for e in trace] != [w[0] for w in want]:
                        return None
                    return z3.And([to_z3(e[1], "int") == s0z + w[1] for e, w in zip(trace, want)] or [z3.BoolVal(True)])
                with_pro = matches(tr, [("header", 0), ("call_observers", 0)] + rest)
                without = matches(tr, rest)
                goal = z3.Or(z3.And(first, with_pro) if with_pro is not None else z3.BoolVal(False),
                             z3.And(z3.Not(first), without) if without is not None else z3.BoolVal(False))
                S.prove(f"{ulabel}#ensures.header_and_step_zero_round_once_then_each_step_followed_by_its_observer_round@{i}", goal, hyps=hy,
                        why=str([(e[0], str(e[1])) for e in tr]))
                S.prove(f"{ulabel}#ensures.exactly_the_requested_number_of_steps@{i}", to_z3(v["mc"].attrs["step_count"], "int") == s0z + N, hyps=hy)
                fl = v["mc"].attrs.get("_initial_observers_called")
                flz = z3.BoolVal(fl) if isinstance(fl, bool) else fl.t
                S.prove(f"{ulabel}#ensures.step_zero_round_never_repeated_by_a_later_run@{i}", z3.Implies(first, flz), hyps=hy)

        # ---- for every number of steps: the same through the loop rule.  These clauses are the DECOMPOSITION the contract
        # chose (work before the loop / one generic iteration / exit); a loop shaped differently can meet the statement without
        # fitting it, so a clause failing here leaves the matter undecided (kind "loop") and the clauses above decide
        label = f"irun via {ename}"
        paths = S.explore(run_entry, label)
        kinds = set()
        for i, p in enumerate(paths):
            S.adopt(p, prefix=f"[{ename}]")
            if p.status == "unsupported":
                continue
            if p.status == "raise":
                S.prove(f"{label}#noraise@{i}", False, kind="noraise", why=f"raises {p.exc!r}")
                continue
            g = p.path.ghost
            s0, steps, flag0 = g["s0"].t, g["steps"].t, g["flag0"].t
            hy = list(p.pc)
            kinds.add(g.get("kind"))
            # ---- prologue (common to both kinds of path)
            if "prologue_log" in g:
                pl, ps = g["prologue_log"], g["prologue_state"]
            else:
                # irun returned without ever reaching its loop: everything it did is prologue
                mc_ = p.value["mc"] if p.status == "return" and isinstance(p.value, dict) else None
                if mc_ is None:
                    S.unsupported.append((label, "irun left before its loop on a path that did not return normally"))
                    continue
                pl = list(g["log"])
                ps = dict(step_count=mc_.attrs["step_count"], max_steps=mc_.attrs["max_steps"], flag=mc_.attrs.get("_initial_observers_called"))
                S.prove(f"{label}#ensures.returns_before_the_loop_only_when_no_step_is_due@{i}", steps <= 0, hyps=hy, why="irun returned without entering its loop", kind="loop")
            first = z3.And(s0 == 0, z3.Not(flag0))
            fired = [e[0] for e in pl if e[0] in ("header", "call_observers")]
            S.prove(f"{label}#ensures.validate_first@{i}", bool(pl) and pl[0][0] == "validate", why=str(pl), kind="loop")
            S.prove(f"{label}#ensures.prologue_header_then_observers_or_nothing@{i}", fired in ([], ["header", "call_observers"]), why=str(pl), kind="loop")
            S.prove(f"{label}#ensures.prologue_iff_first_visit_of_step_zero@{i}", first if fired else z3.Not(first), hyps=hy, kind="loop")
            S.prove(f"{label}#ensures.prologue_no_step@{i}", not any(e[0].startswith("step") for e in pl), kind="loop")
            S.prove(f"{label}#ensures.max_steps_is_start_plus_requested@{i}", to_z3(ps["max_steps"], "int") == s0 + steps, hyps=hy, kind="loop")
            S.prove(f"{label}#ensures.step_counter_untouched_by_prologue@{i}", to_z3(ps["step_count"], "int") == s0, hyps=hy, kind="loop")
            fl = ps["flag"]
            flz = z3.BoolVal(fl) if isinstance(fl, bool) else fl.t
            S.prove(f"{label}#ensures.first_visit_remembered@{i}", flz == z3.Or(flag0, s0 == 0), hyps=hy, kind="loop")
            if g.get("kind") == "iteration":
                sc = g["iter_sc"].t
                il = g["iter_log"]
                S.prove(f"{label}#loop.iteration_is_step_then_count_then_observers@{i}",
                        [e[0] for e in il] == ["step_call", "step_body", "call_observers"], why=str(il), kind="loop")
                if [e[0] for e in il] == ["step_call", "step_body", "call_observers"]:
                    S.prove(f"{label}#loop.step_runs_at_the_old_count_observers_at_the_new@{i}",
                            z3.And(to_z3(il[0][1], "int") == sc, to_z3(il[1][1], "int") == sc, to_z3(il[2][1], "int") == sc + 1), hyps=hy, kind="loop")
                S.prove(f"{label}#loop.counter_advances_by_one@{i}", to_z3(g["iter_after"], "int") == sc + 1, hyps=hy, kind="loop")
                S.prove(f"{label}#loop.guard_is_count_below_max_steps@{i}", sc < s0 + steps, hyps=hy, kind="loop")
            elif g.get("kind") == "exit":
                sc = g["exit_sc"].t
                S.prove(f"{label}#loop.exit_exactly_at_target@{i}", z3.And(sc >= s0 + steps, z3.Implies(steps >= 0, sc == s0 + steps)), hyps=hy, kind="loop")
                S.prove(f"{label}#ensures.nothing_after_the_loop@{i}", g["log"] == [], why=str(g["log"]), kind="loop")
        S.prove(f"{label}#cover.iteration_and_exit_paths", kinds >= {"iteration", "exit"}, why=str(kinds), kind="loop")
    for fn in (DRV + ".irun", DRV + ".run", DRV + ".converged", MC + ".run", MC + ".srun"):
        S.register_function(S.new_interp(), fn, 1)

    # ------------------------------------------------------------------ split lemma over the summaries
    k, s0, a, b, iv = z3.Ints("k s0 a b iv")
    f0 = z3.Bool("flag0")

    def calls(start, n, kk):        # observer called after step kk during a run of n steps from `start`
        return z3.And(kk > start, kk <= start + n, sched(iv, kk))

    def prologue(start, flag):
        return z3.And(start == 0, z3.Not(flag))
    base = [s0 >= 0, a >= 0, b >= 0]
    f1 = z3.Or(f0, s0 == 0)
    S.prove("lemma:split.observer_calls_after_steps", z3.Or(calls(s0, a, k), calls(s0 + a, b, k)) == calls(s0, a + b, k), hyps=base, kind="lemma")
    S.prove("lemma:split.no_call_twice", z3.Not(z3.And(calls(s0, a, k), calls(s0 + a, b, k))), hyps=base, kind="lemma")
    S.prove("lemma:split.prologue_only_once", z3.And(z3.Not(prologue(s0 + a, f1)), prologue(s0, f0) == prologue(s0, f0)), hyps=base, kind="lemma")
    S.prove("lemma:split.final_counter", (s0 + a) + b == s0 + (a + b), hyps=base, kind="lemma")
    S.prove("lemma:schedule.positive_interval_fires_at_zero_and_multiples", z3.Implies(iv > 0, z3.And(sched(iv, 0), sched(iv, 3 * iv), z3.Not(z3.And(iv > 1, sched(iv, iv + 1))))), kind="lemma")
    S.prove("lemma:schedule.negative_interval_fires_exactly_once", z3.Implies(z3.And(iv < 0, k >= 0), sched(iv, k) == (k == -iv)), kind="lemma")
    # ------------------------------------------------------------------ run a then b = run a+b also needs what every run call does first
    # (validate_simulation: reference energy, reference positions) to leave the trial-boundary invariant intact: a reference state
    # that aliases the live arrays makes the first rejected trial of EVERY run call irreversible.  That invariant is the C03
    # contract; its canonical case is re-discharged here (validate_simulation is executed for real there).
    from contracts import C03
    n0 = len(S.obligations)
    m = C03.build(S, tier, cases=("Canonical+DisplacementMove",)) or {}
    for a_ in m.get("assumptions", []):
        if f"[C03] {a_}" not in meta["assumptions"]:
            meta["assumptions"].append(f"[C03] {a_}")
    if not any("C03" in (lbl or "") or "trial:" in (lbl or "") for lbl, _ in S.unsupported):
        S.prove("run call prologue#cover.trial_boundary_contract_rechecked", len(S.obligations) - n0 >= 20, kind="cover", why=str(len(S.obligations) - n0))
    return meta
