"""C03 — a rejected or failed trial leaves the system exactly as it was.

Real drivers and moves run on the Atoms heap model (per-atom arrays of symbolic length, extra arrays,
FixAtoms).  One trial runs first (any outcome) so that the second starts from an arbitrary reachable
trial boundary; the state is snapshot there, the second trial runs through the real step / move /
criteria-contract / revert_state code, and for every rejected or failed outcome every array is compared
with the snapshot at a generic row (plus atom count, array names, cell, constraints, bookkeeping,
labels and pre-selections).
"""
from __future__ import annotations

import z3

from contracts.trial_common import (ContractCriteria, OpaqueOp, adopt_filtered, atoms_restored, checker, install, run_trials, snapshot)
from pyvc.models.arrays import SArr, assign_in_place, generic_index, zint
from pyvc.models.atoms_heap import AtomsHeap
from pyvc.models.calc_model import arrays_equal, rows_equal_z3
from pyvc.objects import Builtin, Ext, Obj
from pyvc.values import Sym, Tensor, to_z3

EXTRA = (("momenta", (3,), "float"), ("tags", (), "int"), ("initial_charges", (), "float"), ("custom2d", (3,), "float"))

CASES = {
    "Canonical+DisplacementMove": dict(driver="quansino.mc.canonical.Canonical", move="disp", constraints=("FixAtoms",)),
    "Canonical+CompositeDisplacementMove": dict(driver="quansino.mc.canonical.Canonical", move="disp2", constraints=("FixAtoms",)),
    "Isobaric+CellMove": dict(driver="quansino.mc.isobaric.Isobaric", move="cell", kw={"pressure": None}, constraints=("FixAtoms",)),
    "GrandCanonical+ExchangeMove": dict(driver="quansino.mc.gcmc.GrandCanonical", move="exchange"),
    "GrandCanonical+ExchangeMove[FixAtoms]": dict(driver="quansino.mc.gcmc.GrandCanonical", move="exchange", constraints=("FixAtoms",), extra=()),
    "GrandCanonical+ExchangeMove[template has an extra array]": dict(driver="quansino.mc.gcmc.GrandCanonical", move="exchange", extra=(), template_extra=(("tags", (), "int"),)),
    # the same with the attempt loops EXECUTED (two attempts) instead of abstracted by an invariant: bounded in the number of
    # attempts, but independent of how the loop is written (a lazily undone attempt does not satisfy the invariant chosen above)
    "Canonical+DisplacementMove[attempt loop unrolled, max_attempts=2]": dict(driver="quansino.mc.canonical.Canonical", move="disp", constraints=("FixAtoms",), unroll=2),
    "Isobaric+CellMove[attempt loop unrolled, max_attempts=2]": dict(driver="quansino.mc.isobaric.Isobaric", move="cell", kw={"pressure": None}, constraints=("FixAtoms",), unroll=2),
    "GrandCanonical[HamiltonianExchangeContext]+ExchangeMove": dict(driver="quansino.mc.gcmc.GrandCanonical", move="exchange", context="quansino.mc.contexts.HamiltonianExchangeContext"),
    "HamiltonianCanonical+HamiltonianDisplacementMove": dict(driver="quansino.mc.canonical.HamiltonianCanonical", move="hamiltonian"),
    # the user replaces the positions (in place, any values) BETWEEN two runs of one driver; the second run starts, as every run does,
    # with validate_simulation: the trial under scrutiny must go back to the edited configuration, not to the end of the first run
    "Canonical+DisplacementMove[second run after the user edited the positions]": dict(driver="quansino.mc.canonical.Canonical", move="disp", constraints=("FixAtoms",), edited_between_runs=True),
    "Isobaric+CellMove[second run after the user edited the positions]": dict(driver="quansino.mc.isobaric.Isobaric", move="cell", kw={"pressure": None}, constraints=("FixAtoms",), edited_between_runs=True),
}


class OpaqueIntegrator(Ext):
    type_name = "Integrator(opaque)"

    def __init__(self):
        self.n = 0

    def py_getattr(self, I, name):
        if name == "integrate":
            def integ(I_, a, k):
                atoms = a[0].attrs["atoms"]
                self.n += 1
                for nm in ("positions", "momenta"):
                    cur = atoms.arrays[nm]
                    assign_in_place(cur, SArr.base(I_, f"integrated{self.n}.{nm}", cur.n, cur.row, cur.dtype))
            return Builtin("integrate", integ)
        raise AttributeError(name)

    def py_truth(self, I):
        return True


def make_sim(I, case):
    extra = case.get("extra", EXTRA)
    atoms, calc, oracle, n = install(I, extra_arrays=tuple(extra), constraints=tuple(case.get("constraints", ())))
    kw = {k: I.path.fresh(k) for k in case.get("kw", {})}
    T = I.path.fresh("T")
    I.path.assume(T.t > 0)
    kw["temperature"] = T
    if "GrandCanonical" in case["driver"]:
        m = I.path.fresh("m_template", "int")
        I.path.assume(m.t >= 1)
        kw["exchange_atoms"] = AtomsHeap(I, n=m, tag="X", array_specs=(("numbers", (), "int"), ("positions", (3,), "float")) + tuple(extra) + tuple(case.get("template_extra", ())))
        kw["number_of_exchange_particles"] = I.path.fresh("N0", "int")
    sim = I.call(I.get_class(case["driver"]), [atoms], dict(kw, seed=1, max_cycles=1))
    if case.get("context"):
        # a driver configured with another shipped context class (default_context is a documented class attribute)
        old = sim.attrs["context"]
        ctx2 = I.call(I.get_class(case["context"]), [atoms, sim.attrs["_rng"]], {})
        for k_ in ("temperature", "chemical_potential", "number_of_exchange_particles", "exchange_atoms", "accessible_volume"):
            if k_ in old.attrs:
                ctx2.attrs[k_] = old.attrs[k_]
        sim.attrs["context"] = ctx2
    labels = SArr.base(I, "labels", n, (), "int")
    moves = []
    total = False
    if case["move"] in ("disp", "disp2"):
        mv = I.call(I.get_class("quansino.moves.displacement.DisplacementMove"), [labels, OpaqueOp((1, 3))], {})
        mv.attrs["check_move"] = checker(I, [])
        moves.append(mv)
        top = mv
        if case["move"] == "disp2":
            mv2 = I.call(I.get_class("quansino.moves.displacement.DisplacementMove"), [labels.like(labels.term), OpaqueOp((1, 3))], {})
            mv2.attrs["check_move"] = checker(I, [])
            moves.append(mv2)
            top = I.binop("+", mv, mv2)
    elif case["move"] == "cell":
        top = I.call(I.get_class("quansino.moves.cell.CellMove"), [OpaqueOp((3, 3))], {"scale_atoms": I.path.fresh("scale_atoms", "bool")})
        top.attrs["check_move"] = checker(I, [])
        moves.append(top)
    elif case["move"] == "exchange":
        top = I.call(I.get_class("quansino.moves.exchange.ExchangeMove"), [labels, OpaqueOp((1, 3))], {"bias_towards_insert": I.path.fresh("bias")})
        top.attrs["check_move"] = checker(I, [])
        moves.append(top)
    elif case["move"] == "swap":
        # a plain composite that first deletes a particle and then inserts one in the same trial (net particle change 0)
        X = I.get_class("quansino.moves.exchange.ExchangeMove")
        xd = I.call(X, [labels, OpaqueOp((1, 3))], {"bias_towards_insert": 0})
        xi = I.call(X, [labels.like(labels.term), OpaqueOp((1, 3))], {"bias_towards_insert": 1})
        for m_ in (xd, xi):
            m_.attrs["check_move"] = checker(I, [])
            moves.append(m_)
        top = I.call(I.get_class("quansino.moves.composite.CompositeMove"), [[xd, xi]], {})
    else:
        total = True

        def refresh(I_, a, k):
            at = a[0].attrs["atoms"]
            cur = at.arrays["momenta"]
            assign_in_place(cur, SArr.base(I_, f"refreshed{len(I_.path.trace)}.momenta", cur.n, cur.row, cur.dtype))
        top = I.call(I.get_class("quansino.moves.displacement.HamiltonianDisplacementMove"), [], {"distribution": Builtin("distribution", refresh), "operation": OpaqueIntegrator()})
        top.attrs["check_move"] = checker(I, [])
        top.attrs["max_attempts"] = 2
        moves.append(top)
    if case.get("unroll"):
        for key_ in [k_ for k_ in I.loop_contracts if k_[0].endswith(("attempt_displacement", "attempt_deformation"))]:
            del I.loop_contracts[key_]
        for m_ in moves:
            m_.attrs["max_attempts"] = case["unroll"]
    I.call(I.getattr(sim, "add_move"), [top], {"name": "m", "criteria": ContractCriteria(total_energy=total)})
    I.call(I.getattr(sim, "validate_simulation"), [], {})
    return sim, atoms, moves, top


def kinetic_stub(I):
    pass


def build(S, tier, cases=None):
    meta = {"assumptions": [
        "ASE Atoms heap contracts (extend, __delitem__ incl. re-indexing of index-based constraints, __getitem__, set_array in place, set_positions with FixAtoms, set_cell with scale_atoms) as in pyvc/models/atoms_heap.py (TRUSTED)",
        "criteria by contract (C02); operations, integrators, momentum distributions and geometric checks opaque (any result)",
        "one arbitrary trial precedes the snapshot, so the checked trial starts from every reachable trial boundary of a two-trial history; longer histories by the invariant",
        "composites built with + of two displacement moves are included; a plain composite that inserts and deletes in one trial is covered only by the native stand-in (recorded finding F5)"],
        "undecided_clauses": []}

    for cname, case in CASES.items():
        if cases is not None and cname not in cases:
            continue

        def run(I, case=case):
            sim, atoms, moves, top = make_sim(I, case)
            run_trials(I, sim, ["m"])                       # an arbitrary first trial
            if case.get("edited_between_runs"):
                cur = atoms.arrays["positions"]
                assign_in_place(cur, SArr.base(I, "edited_by_the_user.positions", cur.n, cur.row, cur.dtype))
                I.call(I.getattr(sim, "validate_simulation"), [], {})
            snap = snapshot(I, sim, atoms, moves)
            log0 = len(atoms.log)
            hist1 = list(sim.attrs["move_history"])
            run_trials(I, sim, ["m"])                       # the trial under scrutiny
            return dict(sim=sim, atoms=atoms, moves=moves, top=top, snap=snap, hist=list(sim.attrs["move_history"]), alog=atoms.log[log0:], hist1=hist1)

        label = f"trial:{cname}"
        paths = S.explore(run, label, max_paths=4000)
        seen = set()
        def post(i, p):
            v = p.value
            I = p.interp
            verdict = v["hist"][0][1] if v["hist"] else "none"
            if isinstance(verdict, Sym):
                s_ = z3.Solver()
                s_.add(*I.path.pc)
                s_.add(z3.Not(verdict.t))
                verdict = s_.check() == z3.unsat
            if verdict is True:
                seen.add("accepted")
                return
            kinds = [e[0] for e in v["alog"] if isinstance(e, tuple)]
            what = "failed" if verdict is None else "rejected"
            if case["move"] == "exchange":
                what += " insertion" if "extend" in kinds else (" deletion" if "delitem" in kinds else " exchange (nothing eligible)")
            if case["move"] == "swap":
                what += " " + ("+".join(k_ for k_ in kinds if k_ in ("extend", "delitem")) or "nothing done")
            seen.add(what)
            lab = f"{label}[{what}]"
            atoms, snap, ctx = v["atoms"], v["snap"], v["sim"].attrs["context"]
            hy = lambda: list(I.path.pc)
            atoms_restored(I, atoms, snap, S, lab, hy, i, what=what)
            # nothing leaks
            leak = []
            for k_ in ("_added_indices", "_deleted_indices"):
                if k_ in ctx.attrs and not (isinstance(ctx.attrs[k_], list) and not ctx.attrs[k_]):
                    leak.append(k_)
            for k_ in ("_added_atoms", "_deleted_atoms"):
                if k_ in ctx.attrs and not (isinstance(ctx.attrs[k_], AtomsHeap) and ctx.attrs[k_].n() == 0):
                    leak.append(k_)
            if "particle_delta" in ctx.attrs and ctx.attrs["particle_delta"] != 0:
                leak.append("particle_delta")
            S.prove(f"{lab}#ensures.no_pending_exchange_bookkeeping@{i}", not leak, kind="ensures", why=f"left behind: {leak}")
            if "number_of_exchange_particles" in ctx.attrs:
                S.prove(f"{lab}#ensures.particle_count_unchanged@{i}", to_z3(ctx.attrs["number_of_exchange_particles"], "int") == to_z3(snap["ctx"]["number_of_exchange_particles"], "int"), hyps=hy())
            for j, mv in enumerate(v["moves"]):
                pre = [k_ for k_ in ("to_displace_labels", "to_add_atoms", "to_delete_label") if mv.attrs.get(k_, None) is not None]
                S.prove(f"{lab}#ensures.no_preselection_left[{j}]@{i}", not pre, kind="ensures", why=str(pre))
                L0 = snap["labels"][j]
                if isinstance(L0, SArr):
                    S.prove(f"{lab}#ensures.labels_unchanged[{j}]@{i}", isinstance(mv.attrs.get("labels"), SArr) and arrays_equal(I, mv.attrs["labels"], L0), kind="ensures")
        for i, p in enumerate(paths):
            adopt_filtered(S, p, prefix=f"[{cname}]")
            if p.status in ("unsupported", "cut"):
                continue
            if p.status != "return":
                S.prove(f"{label}#noraise@{i}", False, kind="noraise", why=f"raises {p.exc!r}")
                continue
            S.guarded(label, post, i, p)
        if not any(q.status == "unsupported" for q in paths) and not any(l == label for l, _ in S.unsupported):
            need = {"accepted"} | ({"rejected insertion", "rejected deletion", "failed insertion"} if case["move"] == "exchange" else
                                   ({"rejected delitem+extend"} if case["move"] == "swap" else {"rejected", "failed"}))
            S.prove(f"{label}#cover.outcomes", need <= seen, kind="cover", why=f"seen {sorted(seen)}")
    for fn in ("quansino.mc.contexts.DisplacementContext.revert_state", "quansino.mc.contexts.DeformationContext.revert_state", "quansino.mc.contexts.HamiltonianContext.revert_state",
               "quansino.mc.contexts.ExchangeContext.revert_state", "quansino.mc.contexts.ExchangeContext.reset", "quansino.moves.displacement.DisplacementMove.attempt_displacement",
               "quansino.moves.cell.CellMove.attempt_deformation", "quansino.moves.exchange.ExchangeMove.attempt_addition", "quansino.moves.exchange.ExchangeMove.attempt_deletion",
               "quansino.moves.exchange.ExchangeMove.__call__", "quansino.moves.displacement.HamiltonianDisplacementMove.attempt_displacement", "quansino.utils.atoms.reinsert_atoms",
               "quansino.moves.displacement.DisplacementMove.register_failure", "quansino.moves.exchange.ExchangeMove.register_failure", "quansino.mc.core.MonteCarlo.step"):
        S.register_function(S.new_interp(), fn, 1)
    return meta
