"""C12 — constraints on the atoms are respected.

(A) FixAtoms with any atom count: real Canonical + DisplacementMove trials on the heap model; fixed rows
    keep their position through accepted, rejected and failed trials (generic row).
(B) k=3 explicit atoms with ASE's exact FixAtoms / FixCom formulas: the real
    DisplacementMove.attempt_displacement (vetoed and successful attempts), Verlet.integrate and
    ForceBias.step keep fixed atoms in place and the centre of mass fixed (rational identities).
(C) FixRot.adjust_momenta on k=3 explicit atoms: zero total angular momentum, unchanged total linear
    momentum, from the inertia-tensor contract and the inverse-matrix axioms.
"""
from __future__ import annotations

import z3

from contracts.trial_common import (ContractCriteria, OpaqueOp, adopt_filtered, checker, install, run_trials)
from pyvc import ops
from pyvc.models.arrays import SArr, generic_index
from pyvc.models.ase_model import RngModel
from pyvc.models.explicit_atoms import AtomsExplicit, ExplicitConstraint
from pyvc.objects import Builtin, Ext
from pyvc.values import Sym, Tensor, to_z3

DM = "quansino.moves.displacement.DisplacementMove"
VER = "quansino.integrators.displacement.Verlet"
FB = "quansino.mc.fbmc.ForceBias"


def R(x):
    return to_z3(x, "real")


def com_num(at, pos):
    """(sum m x_d for d, sum m) as z3 terms"""
    tot = sum(R(at.masses.get((i,))) for i in range(at.k))
    return [sum(R(at.masses.get((i,))) * R(pos.get((i, d))) for i in range(at.k)) for d in range(3)], tot


class VecOp(Ext):
    type_name = "Operation(opaque)"

    def __init__(self):
        self.outs = []

    def py_getattr(self, I, name):
        if name == "calculate":
            def calc(I_, a, k):
                v = Tensor((1, 3), [I_.path.fresh(f"v{len(self.outs)}_{d}") for d in range(3)])
                self.outs.append(v)
                return v
            return Builtin("calculate", calc)
        raise AttributeError(name)

    def py_truth(self, I):
        return True


def build(S, tier):
    meta = {"assumptions": [
        "ASE constraint semantics (FixAtoms, FixCom adjust_positions / adjust_momenta; set_positions / set_momenta apply them unless apply_constraint=False; raw writes bypass them) as in pyvc/models/explicit_atoms.py and atoms_heap.py (TRUSTED): this property is about the interplay with ASE",
        "explicit-atom parts use k=3 atoms (every coordinate, mass, momentum symbolic): bounded in k, unbounded in values; one FixAtoms or one FixCom at a time",
        "moment-of-inertia contract: V orthogonal, V^T diag(eig) V = inertia tensor about the centre of mass; np.linalg.inv as uninterpreted inverse with X@A = A@X = 1 (non-collinear positions)",
        "the force-bias rejection loop is skipped by contract here (any zeta in [-1,1)); its content is C13"],
        "undecided_clauses": []}

    # ------------------------------------------------------------------ (A) FixAtoms, symbolic atom count, through the driver
    def run_A(I):
        atoms, calc, oracle, n = install(I, constraints=("FixAtoms",))
        sim = I.call(I.get_class("quansino.mc.canonical.Canonical"), [atoms], {"seed": 1, "max_cycles": 2, "temperature": I.path.fresh("T")})
        labels = SArr.base(I, "labels", n, (), "int")
        mv = I.call(I.get_class(DM), [labels, OpaqueOp((1, 3))], {})
        mv.attrs["check_move"] = checker(I, [])
        I.call(I.getattr(sim, "add_move"), [mv], {"name": "m", "criteria": ContractCriteria()})
        I.call(I.getattr(sim, "validate_simulation"), [], {})
        P0 = atoms.arrays["positions"].like(atoms.arrays["positions"].term)
        run_trials(I, sim, ["m", "m"])
        return dict(atoms=atoms, P0=P0, n=n, flag=mv.attrs["apply_constraints"])

    label = "Canonical+DisplacementMove[FixAtoms, any atom count]"
    paths = S.explore(run_A, label, max_paths=2000)
    nfull = 0
    for i, p in enumerate(paths):
        adopt_filtered(S, p, prefix=f"[{label}]")
        if p.status != "return":
            if p.status == "raise":
                S.prove(f"{label}#noraise@{i}", False, kind="noraise", why=f"raises {p.exc!r}")
            continue
        nfull += 1

        def post(i=i, p=p):
            v = p.value
            I = p.interp
            at = v["atoms"]
            pg = generic_index(I, v["n"], "p")
            fixed = to_z3(at.fixed_mask.at(I, pg), "bool")
            new, old = at.arrays["positions"].at(I, pg), v["P0"].at(I, pg)
            S.prove(f"{label}#ensures.fixed_atoms_never_move@{i}", z3.Implies(fixed, z3.And([R(a) == R(b) for a, b in zip(new.data, old.data)])), hyps=list(I.path.pc))
            S.prove(f"{label}#ensures.constraints_on_by_default@{i}", v["flag"] is True, kind="ensures")
        S.guarded(label, post)
    S.prove(f"{label}#cover.paths", nfull >= 4, kind="cover", why=f"{nfull}")

    # ------------------------------------------------------------------ (B1) attempt_displacement on explicit atoms
    for cons in ("FixCom", "FixAtoms"):
        def run_B1(I, cons=cons):
            at = AtomsExplicit(I, 3, constraints=[ExplicitConstraint(cons, indices=[0] if cons == "FixAtoms" else None)])
            ctx = I.new_obj("quansino.mc.contexts.DisplacementContext", atoms=at, rng=RngModel(), _moving_indices=[])
            labels = Tensor((3,), [5, 7, 7], "int")
            op = VecOp()
            mv = I.call(I.get_class(DM), [labels, op], {})
            mv.attrs["max_attempts"] = 2
            answers = [I.path.fresh("ok0", "bool"), I.path.fresh("ok1", "bool")]
            mv.attrs["check_move"] = Builtin("check_move", lambda I_, a, k: answers.pop(0))
            mv.attrs["to_displace_labels"] = 7
            P0 = at.positions.copy()
            r = I.call(mv, [ctx], {})
            return dict(at=at, P0=P0, r=r)

        label = f"{DM}.attempt_displacement[k=3,{cons}]"
        for i, p in enumerate(S.explore(run_B1, label)):
            S.adopt(p, prefix=f"[{label}]")
            if p.status != "return":
                if p.status == "raise":
                    S.prove(f"{label}#noraise@{i}", False, kind="noraise", why=f"raises {p.exc!r}")
                continue
            v = p.value
            at = v["at"]
            if cons == "FixCom":
                (n1, t1), (n0, _) = com_num(at, at.positions), com_num(at, v["P0"])
                S.prove_rational(f"{label}#ensures.centre_of_mass_fixed_after_any_outcome@{i}", [(n1[d], n0[d]) for d in range(3)], hyps=p.pc)
            else:
                S.prove_rational(f"{label}#ensures.fixed_atom_never_moves@{i}", [(R(at.positions.get((0, d))), R(v["P0"].get((0, d)))) for d in range(3)], hyps=p.pc)
        S.register_function(S.new_interp(), DM + ".attempt_displacement", 1)

    # ------------------------------------------------------------------ (B2) Verlet.integrate on explicit atoms
    for cons, used in (("FixCom", False), ("FixAtoms", False), ("FixCom", True), ("FixAtoms", True)):
        def run_B2(I, cons=cons, used=used):
            at = AtomsExplicit(I, 3, constraints=[ExplicitConstraint(cons, indices=[0] if cons == "FixAtoms" else None)])
            # the state at the start satisfies the constraint (momenta already adjusted)
            at.momenta = at.apply_momenta(I, at.momenta)
            ctx = I.new_obj("quansino.mc.contexts.HamiltonianDisplacementContext", atoms=at, rng=RngModel(), temperature=I.path.fresh("T"))
            dt = I.path.fresh("dt")
            I.path.assume(dt.t > 0)
            ver = I.call(I.get_class(VER), [dt], {"max_steps": 2})
            if used:
                # the same integrator object was used before on atoms that carried no constraint (equilibration, another simulation)
                free = AtomsExplicit(I, 3, tag="f")
                I.call(I.getattr(ver, "integrate"), [I.new_obj("quansino.mc.contexts.HamiltonianDisplacementContext", atoms=free, rng=RngModel(), temperature=I.path.fresh("Tf"))], {})
            P0 = at.positions.copy()
            I.call(I.getattr(ver, "integrate"), [ctx], {})
            return dict(at=at, P0=P0, ver=ver)

        label = f"{VER}.integrate[k=3,{cons}{', integrator used before without constraints' if used else ''}]"
        for i, p in enumerate(S.explore(run_B2, label)):
            S.adopt(p, prefix=f"[{label}]")
            if p.status != "return":
                if p.status == "raise":
                    S.prove(f"{label}#noraise@{i}", False, kind="noraise", why=f"raises {p.exc!r}")
                continue
            v = p.value
            at = v["at"]
            S.prove(f"{label}#ensures.constraints_on_by_default@{i}", v["ver"].attrs.get("apply_constraints") is True, kind="ensures")
            if cons == "FixCom":
                (n1, _), (n0, _) = com_num(at, at.positions), com_num(at, v["P0"])
                S.prove_rational(f"{label}#ensures.centre_of_mass_fixed@{i}", [(n1[d], n0[d]) for d in range(3)], hyps=p.pc)
                S.prove_rational(f"{label}#ensures.total_momentum_zero@{i}", [(sum(R(at.momenta.get((a, d))) for a in range(3)), z3.RealVal(0)) for d in range(3)], hyps=p.pc)
            else:
                S.prove_rational(f"{label}#ensures.fixed_atom_never_moves@{i}", [(R(at.positions.get((0, d))), R(v["P0"].get((0, d)))) for d in range(3)], hyps=p.pc)
                S.prove_rational(f"{label}#ensures.fixed_atom_has_no_momentum@{i}", [(R(at.momenta.get((0, d))), z3.RealVal(0)) for d in range(3)], hyps=p.pc)

    # ------------------------------------------------------------------ (B3) ForceBias.step on explicit atoms
    def fb_loop(I, node, frame):
        mc = frame.locals["self"]
        z = Tensor((3, 3), [I.path.fresh(f"zeta{j}") for j in range(9)])
        for e in z.data:
            I.path.assume(z3.And(e.t >= -1, e.t < 1))
        mc.attrs["zeta"] = z
        return
        yield

    for cons in ("FixCom", "FixAtoms"):
        def run_B3(I, cons=cons):
            I.loop_contracts[(FB + ".step", 0)] = fb_loop
            at = AtomsExplicit(I, 3, constraints=[ExplicitConstraint(cons, indices=[0] if cons == "FixAtoms" else None)])
            T, d = I.path.fresh("T"), I.path.fresh("delta")
            I.path.assume(z3.And(T.t > 0, d.t > 0))
            mc = I.call(I.get_class(FB), [at, d], {"temperature": T, "seed": 1})
            sm = Tensor((3, 3), [I.path.fresh(f"scaling_mass{j}") for j in range(9)])      # user-set scaling masses (update_masses)
            for e in sm.data:
                I.path.assume(e.t > 0)
            I.call(I.getattr(mc, "update_masses"), [sm], {})
            P0 = at.positions.copy()
            at.log.clear()
            I.call(I.getattr(mc, "step"), [], {})
            return dict(at=at, P0=P0)

        label = f"{FB}.step[k=3,{cons},independent scaling masses]"
        for i, p in enumerate(S.explore(run_B3, label, max_paths=50)):
            S.adopt(p, prefix=f"[{label}]")
            if p.status != "return":
                if p.status == "raise":
                    S.prove(f"{label}#noraise@{i}", False, kind="noraise", why=f"raises {p.exc!r}")
                continue
            v = p.value
            at = v["at"]
            if cons == "FixCom":
                (n1, _), (n0, _) = com_num(at, at.positions), com_num(at, v["P0"])
                S.prove_rational(f"{label}#ensures.centre_of_mass_fixed@{i}", [(n1[d], n0[d]) for d in range(3)], hyps=p.pc)
            else:
                S.prove_rational(f"{label}#ensures.fixed_atom_never_moves@{i}", [(R(at.positions.get((0, d))), R(v["P0"].get((0, d)))) for d in range(3)], hyps=p.pc)
        S.register_function(S.new_interp(), FB + ".step", 1)

    # ------------------------------------------------------------------ (C) FixRot.adjust_momenta
    def run_C(I, again=False):
        at = AtomsExplicit(I, 3)
        fr = I.call(I.get_class("quansino.constraints.FixRot"), [], {})
        p0 = at.momenta.copy()
        mom = at.momenta.copy()

        if again:
            # an earlier call of the same constraint object on an earlier geometry of the same atoms (positions are updated in place)
            I.call(I.getattr(fr, "adjust_momenta"), [at, at.momenta.copy()], {})
            I.path.ghost["invs"] = []
            at.positions.data[:] = [I.path.fresh(f"moved_x{j}") for j in range(9)]
        I.call(I.getattr(fr, "adjust_momenta"), [at, mom], {})
        at.momenta = mom
        return dict(at=at, p0=p0)

    def check_fixrot(again):
        label = "quansino.constraints.FixRot.adjust_momenta[k=3" + (", second call after the atoms moved]" if again else "]")
        paths = S.explore(lambda I, again=again: run_C(I, again), label)
        S.register_function(S.new_interp(), "quansino.constraints.FixRot.adjust_momenta", len(paths))
        for i, p in enumerate(paths):
            S.adopt(p, prefix=f"[{label}]")
            if p.status != "return":
                if p.status == "raise":
                    S.prove(f"{label}#noraise@{i}", False, kind="noraise", why=f"raises {p.exc!r}")
                continue

            def post(i=i, p=p):
                v = p.value
                I = p.interp
                at = v["at"]
                eig, V = at.inertia_contract
                pc = list(I.path.pc)
                g = lambda T, a, b: R(T.get((a, b)))
                dl = lambda a, b: 1 if a == b else 0
                c = [R(x) for x in at.com_contract]
                M = sum(R(at.masses.get((a,))) for a in range(3))
                m = [R(at.masses.get((a,))) for a in range(3)]
                r = [[R(at.positions.get((a, d))) - c[d] for d in range(3)] for a in range(3)]
                p0 = [[R(v["p0"].get((a, d))) for d in range(3)] for a in range(3)]
                pn = [[R(at.momenta.get((a, d))) for d in range(3)] for a in range(3)]
                cross = lambda u, w: [u[1] * w[2] - u[2] * w[1], u[2] * w[0] - u[0] * w[2], u[0] * w[1] - u[1] * w[0]]
                J = [[sum(m[k_] * ((sum(r[k_][d] ** 2 for d in range(3)) if a_ == b_ else 0) - r[k_][a_] * r[k_][b_]) for k_ in range(3)) for b_ in range(3)] for a_ in range(3)]
                invs = I.path.ghost.get("invs", [])
                H1 = [[sum(g(V, a_, k_) * g(V, b_, k_) for k_ in range(3)) - dl(a_, b_) for b_ in range(3)] for a_ in range(3)]          # V V^T - 1   (TRUSTED contract)
                H3 = [[sum(g(V, k_, a_) * R(eig.get((k_,))) * g(V, k_, b_) for k_ in range(3)) - J[a_][b_] for b_ in range(3)] for a_ in range(3)]   # V^T D V - J (TRUSTED contract)
                L0 = [sum(cross(r[a], p0[a])[c_] for a in range(3)) for c_ in range(3)]
                Ln = [sum(cross(r[a], pn[a])[c_] for a in range(3)) for c_ in range(3)]
                Hc = [M * c[d] - sum(m[a] * R(at.positions.get((a, d))) for a in range(3)) for d in range(3)]
                if not invs or not all(t.shape == (3, 3) for t, _ in invs):
                    # another formulation (e.g. eigen-decomposition of the inverse): no lemma chain prepared, plain SMT
                    contract = [H1[a_][b_] == 0 for a_ in range(3) for b_ in range(3)] + [H3[a_][b_] == 0 for a_ in range(3) for b_ in range(3)]
                    contract += [sum(g(V, k_, a_) * g(V, k_, b_) for k_ in range(3)) == dl(a_, b_) for a_ in range(3) for b_ in range(3)]
                    S.prove(f"{label}#ensures.zero_total_angular_momentum@{i}", z3.And([x == 0 for x in Ln]), hyps=pc + contract, timeout_ms=15000)
                    S.prove(f"{label}#ensures.total_linear_momentum_unchanged@{i}", z3.And([sum(pn[a][d] for a in range(3)) == sum(p0[a][d] for a in range(3)) for d in range(3)]), hyps=pc + contract, timeout_ms=15000)
                    return
                A, Y = invs[-1]
                H4 = [[sum(g(A, a_, k_) * g(Y, k_, b_) for k_ in range(3)) - dl(a_, b_) for b_ in range(3)] for a_ in range(3)]          # A Y - 1
                S.prove(f"{label}#lemma.inverse_axioms_are_path_facts@{i}", z3.And([H4[a_][b_] == 0 for a_ in range(3) for b_ in range(3)]), hyps=pc)
                subX = []
                for j, (Vin, X) in enumerate(invs[:-1]):
                    # --- lemma 1: an inverse of the axes matrix is its transpose
                    H2 = [[sum(g(X, a_, k_) * g(Vin, k_, b_) for k_ in range(3)) - dl(a_, b_) for b_ in range(3)] for a_ in range(3)]    # X Vin - 1
                    S.prove(f"{label}#lemma.inverse_axioms_are_path_facts[{j}]@{i}", z3.And([H2[a_][b_] == 0 for a_ in range(3) for b_ in range(3)]), hyps=pc)
                    ob = S.prove(f"{label}#lemma.earlier_inverse_is_of_the_axes[{j}]@{i}", z3.And([g(Vin, a_, b_) == g(V, a_, b_) for a_ in range(3) for b_ in range(3)]), hyps=pc)
                    for a_ in range(3):
                        for b_ in range(3):
                            S.prove_poly(f"{label}#lemma.inverse_of_axes_is_transpose[{j}][{a_}{b_}]@{i}", g(X, a_, b_), g(V, b_, a_),
                                         [(-g(X, a_, k_), H1[k_][b_]) for k_ in range(3)] + [(g(V, b_, k_), z3.substitute(H2[a_][k_], *[(g(Vin, x_, y_), g(V, x_, y_)) for x_ in range(3) for y_ in range(3)])) for k_ in range(3)])
                    subX += [(g(X, a_, b_), g(V, b_, a_)) for a_ in range(3) for b_ in range(3)]
                sub = (lambda t: z3.substitute(t, *subX)) if subX else (lambda t: t)
                # --- lemma 2: J Y = 1 (the final inverse is the inverse of the inertia tensor)
                H4s = [[sub(H4[a_][b_]) for b_ in range(3)] for a_ in range(3)]
                JY = [[sum(J[a_][k_] * g(Y, k_, b_) for k_ in range(3)) - dl(a_, b_) for b_ in range(3)] for a_ in range(3)]
                for a_ in range(3):
                    for b_ in range(3):
                        # the matrix the code inverted IS the inertia tensor (V^T D V once inv(V) = V^T): a wrong transpose fails here
                        S.prove_poly(f"{label}#lemma.inverted_matrix_is_the_inertia_tensor[{a_}{b_}]@{i}", sub(g(A, a_, b_)), J[a_][b_], [(1, H3[a_][b_])],
                                     hyps=[H3[x_][y_] == 0 for x_ in range(3) for y_ in range(3)] + [z3.And(*[R(e) > 0 for e in eig.data])])
                        S.prove_poly(f"{label}#lemma.final_inverse_inverts_inertia[{a_}{b_}]@{i}", JY[a_][b_], z3.RealVal(0),
                                     [(1, H4s[a_][b_])] + [(-g(Y, k_, b_), sub(g(A, a_, k_)) - J[a_][k_]) for k_ in range(3)])
                # --- the property
                for c_ in range(3):
                    S.prove_poly(f"{label}#ensures.zero_total_angular_momentum[{c_}]@{i}", Ln[c_], z3.RealVal(0), [(-L0[b_], JY[c_][b_]) for b_ in range(3)])
                om = [sum(g(Y, c_, b_) * L0[b_] for b_ in range(3)) for c_ in range(3)]
                wx = lambda d: [(om[(d + 1) % 3], Hc[(d + 2) % 3]), (-om[(d + 2) % 3], Hc[(d + 1) % 3])]
                for d in range(3):
                    S.prove_poly(f"{label}#ensures.total_linear_momentum_unchanged[{d}]@{i}", sum(pn[a][d] for a in range(3)), sum(p0[a][d] for a in range(3)), wx(d))
            S.guarded(label, post)

    for again in (False, True):
        check_fixrot(again)
    return meta
