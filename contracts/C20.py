"""C20 — drivers use custom moves and criteria only through the documented protocol.

User moves / criteria are STRICT opaque objects: the only members they answer to are the ones the
protocol classes in quansino/protocols.py declare (re-read on every run); any other attribute
access, and any isinstance() probe outside the default-criteria lookup, is recorded and is a
failed frame obligation.  The real add_move, step, to_dict, save_state and revert_state of all six
Monte Carlo drivers run on such objects (context save/revert are cut by contract: C03/C04).
"""
from __future__ import annotations

import z3

from pyvc import ops
from pyvc.models.ase_model import CellModel
from pyvc.models.ser_model import AtomsSer
from pyvc.objects import Builtin, ClassVal, Ext, FuncVal, Obj
from pyvc.values import PyExc, Sym, Tensor, Unsupported, to_z3

MC = "quansino.mc.core.MonteCarlo"
DRIVERS = {
    "quansino.mc.core.MonteCarlo": {},
    "quansino.mc.canonical.Canonical": {},
    "quansino.mc.canonical.HamiltonianCanonical": {},
    "quansino.mc.isobaric.Isobaric": {"temperature": 300},
    "quansino.mc.isotension.Isotension": {"temperature": 300},
    "quansino.mc.gcmc.GrandCanonical": {},
}


PROBES = ("isinstance_probe", "truthiness_probe", "equality_probe")


class Strict(Ext):
    """a bare user object: answers only to the protocol members"""

    def __init__(self, kind, members, log, results=None):
        self.kind, self.members, self.log = kind, members, log
        self.results = list(results or [])
        self.type_name = f"user {kind}"
        self.truthy, self.equal_to_others = True, False

    def py_getattr(self, I, name):
        if name not in self.members:
            self.log.append(("foreign_attribute", self.kind, name))
            raise PyExc("AttributeError", (name,))
        def method(I_, a, k):
            self.log.append((self.kind, name, tuple(a)))
            if name in ("__call__", "evaluate"):
                return self.results.pop(0)
            if name == "to_dict":
                return {"name": f"User{self.kind.title()}"}
            return None
        return Builtin(f"{self.kind}.{name}", method)

    def py_setattr(self, I, name, value):
        self.log.append(("foreign_attribute_write", self.kind, name))

    def py_call(self, I, args, kwargs):
        if "__call__" not in self.members:
            self.log.append(("foreign_call", self.kind))
            raise PyExc("TypeError", ("not callable",))
        self.log.append((self.kind, "__call__", tuple(args)))
        return self.results.pop(0)

    def py_isinstance(self, I, cls):
        self.log.append(("isinstance_probe", self.kind, getattr(cls, "name", str(cls))))
        return False

    def py_truth(self, I):
        # bool(obj) consults __bool__ / __len__: neither is a protocol member (a conforming component may well be "empty")
        self.log.append(("truthiness_probe", self.kind))
        return self.truthy

    def py_compare(self, I, op, other, reflected):
        # == / != consult __eq__: not a protocol member either (two distinct components may compare equal)
        if op in ("Eq", "NotEq") and other is not self:
            self.log.append(("equality_probe", self.kind))
            return (op == "Eq") == self.equal_to_others
        if op in ("Eq", "NotEq"):
            return op == "Eq"
        return NotImplemented

    def py_type(self, I):
        from pyvc.objects import BuiltinType
        return BuiltinType(f"User{self.kind.title()}")


def protocol_members(I, name):
    cls = I.get_class("quansino.protocols." + name)
    return ops.protocol_members(cls)


def build(S, tier):
    meta = {"assumptions": [
        "the protocol surface is what quansino/protocols.py declares on Move / Criteria (incl. inherited Serializable), re-read on every run",
        "Context.save_state/revert_state (and subclasses) are cut by contract here; their own behaviour is C03/C04",
        "two trials per step (k=2) with symbolic move results and symbolic verdicts; any history is a sequence of such trials (Inv)"],
        "undecided_clauses": []}
    I0 = S.new_interp()
    mm, cm = protocol_members(I0, "Move"), protocol_members(I0, "Criteria")
    S.prove("static:protocol#cover.move_surface", mm == {"__call__", "on_atoms_changed", "on_cell_changed", "to_dict", "from_dict"}, kind="cover", why=str(sorted(mm)))
    S.prove("static:protocol#cover.criteria_surface", cm == {"evaluate", "to_dict", "from_dict"}, kind="cover", why=str(sorted(cm)))

    def setup(I, qn, kw, move_results, verdicts, log):
        I.loader.models["ase.atoms"].attrs["Atoms"] = Builtin("Atoms", lambda I_, a, k: AtomsSer(I_, 0, tag="empty"))
        atoms = AtomsSer(I, 2)
        sim = I.call(I.get_class(qn), [atoms], dict(kw, seed=1, max_cycles=2))
        move = Strict("move", protocol_members(I, "Move"), log, move_results)
        crit = Strict("criteria", protocol_members(I, "Criteria"), log, verdicts)
        I.call(I.getattr(sim, "add_move"), [move], {"criteria": crit, "name": "user", "interval": I.path.fresh("interval", "int"), "probability": I.path.fresh("w")})
        # context snapshots are not the subject here
        ctxlog = log
        for c in ("Context", "DisplacementContext", "DeformationContext", "ExchangeContext", "HamiltonianContext"):
            for m in ("save_state", "revert_state"):
                I.contracts[f"quansino.mc.contexts.{c}.{m}"] = (lambda I_, fv, a, k, m=m: ctxlog.append(("context", m)))
        I.contracts[MC + ".yield_moves"] = lambda I_, fv, a, k: ["user", "user"]
        return sim, move, crit, atoms

    for qn, kw in DRIVERS.items():
        short = qn.split(".")[-1]

        def run(I, qn=qn, kw=kw):
            log = []
            r = [I.path.fresh("moved0", "bool"), I.path.fresh("moved1", "bool")]
            a = [I.path.fresh("accept0", "bool"), I.path.fresh("accept1", "bool")]
            sim, move, crit, atoms = setup(I, qn, kw, r, a, log)
            n_add = len(log)
            ctx = sim.attrs["context"]
            sim.attrs["step_count"] = I.path.fresh("step_count", "int")
            # symbolic accepted-change descriptors
            if "GrandCanonical" in qn:
                ctx.attrs["_added_indices"] = ("added-index-set",)
                ctx.attrs["_deleted_indices"] = ("deleted-index-set",)
            if "Iso" in qn:
                ctx.attrs["last_cell"] = CellModel(Tensor((3, 3), [I.path.fresh(f"old{i}") for i in range(9)]))
            gen = I.call(I.getattr(sim, "step"), [], {})
            names = list(I.iterate(gen))
            d = I.call(I.getattr(sim, "to_dict"), [], {})
            return dict(sim=sim, log=log, n_add=n_add, r=r, a=a, names=names, move=move, crit=crit, atoms=atoms, ctx=ctx, d=d)

        label = f"{short}.step[user move + user criteria]"
        paths = S.explore(run, label, max_paths=400)
        S.register_function(I0, MC + ".step", len(paths))
        S.register_function(I0, MC + ".add_move", len(paths))
        for i, p in enumerate(paths):
            S.adopt(p, prefix=label + ":")
            if p.status == "unsupported":
                continue
            if p.status != "return":
                S.prove(f"{label}#noraise@{i}", False, kind="noraise", why=f"raises {p.exc!r}")
                continue
            v = p.value
            log, hist = v["log"], v["sim"].attrs["move_history"]
            foreign = [e for e in log if e[0].startswith("foreign") or e[0] in PROBES]
            S.prove(f"{label}#frame.only_protocol_members_touched@{i}", not foreign, kind="frame", why=str(foreign[:4]))
            S.prove(f"{label}#ensures.add_move_with_explicit_criteria_stores_both@{i}",
                    v["sim"].attrs["moves"]["user"].attrs.get("move") is v["move"] and v["sim"].attrs["moves"]["user"].attrs.get("criteria") is v["crit"], kind="ensures")
            # trial-by-trial: truthy -> evaluate once, verdict recorded; falsy -> no evaluate, None recorded
            trial_log = log[v["n_add"]:]
            calls = [e for e in trial_log if e[:2] in (("move", "__call__"), ("criteria", "evaluate"))]
            exp_calls, exp_hist, cl = [], [], []
            hy = list(p.pc)

            def val(b):
                s_ = z3.Solver()
                s_.add(*hy)
                s_.add(z3.Not(b.t))
                if s_.check() == z3.unsat:
                    return True
                s_ = z3.Solver()
                s_.add(*hy)
                s_.add(b.t)
                return False if s_.check() == z3.unsat else None
            ok_decided = True
            nv = 0          # verdicts are handed out in the order evaluate() is called
            for t in range(2):
                moved = val(v["r"][t])
                exp_calls.append(("move", "__call__"))
                if moved is None:
                    ok_decided = False
                    break
                if moved:
                    exp_calls.append(("criteria", "evaluate"))
                    acc = val(v["a"][nv])
                    nv += 1
                    if acc is None:
                        ok_decided = False
                        break
                    exp_hist.append(("user", acc))
                else:
                    exp_hist.append(("user", None))
            S.prove(f"{label}#ensures.path_decides_every_outcome@{i}", ok_decided, kind="ensures")
            if not ok_decided:
                continue
            S.prove(f"{label}#ensures.truthy_move_goes_to_criteria_once_falsy_does_not@{i}", [c[:2] for c in calls] == exp_calls, kind="ensures", why=f"{[c[:2] for c in calls]} expected {exp_calls}")
            got = [(h[0], (h[1] if h[1] is None or isinstance(h[1], bool) else val(h[1]))) for h in hist] if isinstance(hist, list) else hist
            S.prove(f"{label}#ensures.history_records_accept_reject_or_not_attempted@{i}", got == exp_hist, kind="ensures", why=f"{got} expected {exp_hist}")
            S.prove(f"{label}#ensures.move_and_criteria_receive_the_context@{i}", all(c[2] == (v["ctx"],) for c in calls), kind="ensures")
            # accepted / rejected trials go to save_state / revert_state
            n_acc = sum(1 for h in exp_hist if h[1] is True)
            n_rej = sum(1 for h in exp_hist if h[1] is False)
            S.prove(f"{label}#ensures.accept_saves_reject_reverts@{i}",
                    sum(1 for e in trial_log if e == ("context", "save_state")) == n_acc and sum(1 for e in trial_log if e == ("context", "revert_state")) == n_rej, kind="ensures",
                    why=str([e for e in trial_log if e[0] == "context"]))
            # notifications
            notes = [e for e in trial_log if e[0] == "move" and e[1] in ("on_atoms_changed", "on_cell_changed")]
            if "GrandCanonical" in qn:
                S.prove(f"{label}#ensures.every_accepted_trial_notifies_atom_count_change_with_the_index_sets@{i}",
                        [e for e in notes if e[1] == "on_atoms_changed"] == [("move", "on_atoms_changed", (("added-index-set",), ("deleted-index-set",)))] * n_acc, kind="ensures", why=str(notes))
            # serialization goes through to_dict of the user objects
            dm = v["d"]["moves"]["user"]["kwargs"] if isinstance(v["d"], dict) else {}
            S.prove(f"{label}#ensures.serialized_through_the_users_to_dict@{i}", dm.get("move") == {"name": "UserMove"} and dm.get("criteria") == {"name": "UserCriteria"}, kind="ensures", why=str(dm)[:200])

    # ------------------------------------------------------------------ cell notification (Isobaric / Isotension accept path)
    for qn in ("quansino.mc.isobaric.Isobaric", "quansino.mc.isotension.Isotension"):
        short = qn.split(".")[-1]

        def run_cell(I, qn=qn):
            log = []
            sim, move, crit, atoms = setup(I, qn, {"temperature": 300}, [], [], log)
            n_add = len(log)
            ctx = sim.attrs["context"]
            old = Tensor((3, 3), [I.path.fresh(f"old{i}") for i in range(9)])
            ctx.attrs["last_cell"] = CellModel(old)
            I.call(I.getattr(sim, "save_state"), [], {})
            return dict(log=log[n_add:], old=old, new=atoms.cell.array, move=move)

        label = f"{short}.save_state[accepted trial]"
        paths = S.explore(run_cell, label, max_paths=100)
        S.register_function(I0, "quansino.mc.isobaric.Isobaric.save_state", len(paths))
        seen = set()
        for i, p in enumerate(paths):
            S.adopt(p, prefix=label + ":")
            if p.status == "unsupported":
                continue
            if p.status != "return":
                S.prove(f"{label}#noraise@{i}", False, kind="noraise", why=f"raises {p.exc!r}")
                continue
            v = p.value
            notes = [e for e in v["log"] if e[:2] == ("move", "on_cell_changed")]
            same = z3.And([to_z3(a, "real") == to_z3(b, "real") for a, b in zip(v["old"].data, v["new"].data)])
            seen.add(bool(notes))
            S.prove(f"{label}#ensures.cell_change_notified_once_iff_the_cell_changed@{i}", z3.Not(same) if notes else same, hyps=p.pc)
            S.prove(f"{label}#ensures.at_most_one_notification_with_the_new_cell@{i}",
                    len(notes) <= 1 and all(isinstance(e[2][0], CellModel) and all(x is y for x, y in zip(e[2][0].array.data, v["new"].data)) for e in notes), kind="ensures", why=str(notes))
            S.prove(f"{label}#frame.only_protocol_members_touched@{i}", not [e for e in v["log"] if e[0].startswith("foreign") or e[0] in PROBES], kind="frame")
            S.prove(f"{label}#ensures.state_saved@{i}", ("context", "save_state") in v["log"], kind="ensures")
        if not any(q.status == "unsupported" for q in paths):
            S.prove(f"{label}#cover.changed_and_unchanged", seen == {True, False}, kind="cover", why=str(seen))

    # ------------------------------------------------------------------ components that are "empty" or compare equal to one another
    for qn, kw in DRIVERS.items():
        short = qn.split(".")[-1]

        def run_falsy(I, qn=qn, kw=kw):
            log = []
            I.loader.models["ase.atoms"].attrs["Atoms"] = Builtin("Atoms", lambda I_, a, k: AtomsSer(I_, 0, tag="empty"))
            sim = I.call(I.get_class(qn), [AtomsSer(I, 2)], dict(kw, seed=1, max_cycles=2))
            move = Strict("move", protocol_members(I, "Move"), log)
            crit = Strict("criteria", protocol_members(I, "Criteria"), log)
            move.truthy = crit.truthy = False              # e.g. container-like components holding nothing: still conforming
            I.call(I.getattr(sim, "add_move"), [move], {"criteria": crit, "name": "user"})
            st = sim.attrs["moves"]["user"]
            return dict(log=log, stored=(st.attrs.get("move") is move, st.attrs.get("criteria") is crit))

        label = f"{short}.add_move[falsy user move and criteria]"
        for i, p in enumerate(S.explore(run_falsy, label)):
            S.adopt(p, prefix=label + ":")
            if p.status == "unsupported":
                continue
            if p.status != "return":
                S.prove(f"{label}#noraise@{i}", False, kind="noraise", why=f"raises {p.exc!r}")
                continue
            S.prove(f"{label}#ensures.explicit_criteria_is_stored_whatever_its_truth_value@{i}", p.value["stored"] == (True, True), kind="ensures", why=str(p.value["stored"]))
            S.prove(f"{label}#frame.only_protocol_members_touched@{i}", not [e for e in p.value["log"] if e[0].startswith("foreign") or e[0] in PROBES], kind="frame",
                    why=str([e for e in p.value["log"] if e[0].startswith("foreign") or e[0] in PROBES][:4]))

    def run_equal_moves(I):
        log = []
        sim, move, crit, atoms = setup(I, "quansino.mc.gcmc.GrandCanonical", {}, [], [], log)
        move2 = Strict("move", protocol_members(I, "Move"), log)
        move.equal_to_others = move2.equal_to_others = True            # distinct objects that compare equal (e.g. dataclasses)
        move.tag, move2.tag = "first", "second"
        I.call(I.getattr(sim, "add_move"), [move2], {"criteria": crit, "name": "user2"})
        n_add = len(log)
        ctx = sim.attrs["context"]
        ctx.attrs["_added_indices"] = ("added-index-set",)
        ctx.attrs["_deleted_indices"] = ("deleted-index-set",)
        I.call(I.getattr(sim, "save_state"), [], {})
        return dict(log=log[n_add:], moves=(move, move2))

    label = "GrandCanonical.save_state[two user moves that compare equal]"
    for i, p in enumerate(S.explore(run_equal_moves, label)):
        S.adopt(p, prefix=label + ":")
        if p.status == "unsupported":
            continue
        if p.status != "return":
            S.prove(f"{label}#noraise@{i}", False, kind="noraise", why=f"raises {p.exc!r}")
            continue
        notes = [e for e in p.value["log"] if e[:2] == ("move", "on_atoms_changed")]
        S.prove(f"{label}#ensures.each_distinct_move_notified_once@{i}", len(notes) == 2, kind="ensures", why=str(notes))
        S.prove(f"{label}#frame.only_protocol_members_touched@{i}", not [e for e in p.value["log"] if e[0].startswith("foreign") or e[0] in PROBES], kind="frame",
                why=str([e for e in p.value["log"] if e[0].startswith("foreign") or e[0] in PROBES][:4]))

    # the user puts ANOTHER move object under an existing name after the driver has already notified the old one (the table keeps its
    # size): the next accepted change of the atom count reaches the object that is in the table now, and only that one
    def run_replaced_move(I):
        log, log2 = [], []
        sim, move, crit, atoms = setup(I, "quansino.mc.gcmc.GrandCanonical", {}, [], [], log)
        ctx = sim.attrs["context"]
        ctx.attrs["_added_indices"], ctx.attrs["_deleted_indices"] = ("added-index-set-1",), ("deleted-index-set-1",)
        I.call(I.getattr(sim, "save_state"), [], {})
        move2 = Strict("move", protocol_members(I, "Move"), log2)
        I.call(I.getattr(sim, "add_move"), [move2], {"criteria": crit, "name": "user"})
        n1, n2 = len(log), len(log2)
        ctx.attrs["_added_indices"], ctx.attrs["_deleted_indices"] = ("added-index-set-2",), ("deleted-index-set-2",)
        I.call(I.getattr(sim, "save_state"), [], {})
        return dict(old=log[n1:], new=log2[n2:], in_table=sim.attrs["moves"]["user"].attrs.get("move") is move2)

    label = "GrandCanonical.save_state[after the move under a name was replaced by another object]"
    for i, p in enumerate(S.explore(run_replaced_move, label)):
        S.adopt(p, prefix=label + ":")
        if p.status == "unsupported":
            continue
        if p.status != "return":
            S.prove(f"{label}#noraise@{i}", False, kind="noraise", why=f"raises {p.exc!r}")
            continue
        v = p.value
        new = [e for e in v["new"] if e[:2] == ("move", "on_atoms_changed")]
        old = [e for e in v["old"] if e[:2] == ("move", "on_atoms_changed")]
        S.prove(f"{label}#ensures.the_move_in_the_table_is_the_new_object@{i}", v["in_table"], kind="ensures")
        S.prove(f"{label}#ensures.the_move_now_in_the_table_is_notified_once_with_the_current_index_sets@{i}",
                len(new) == 1 and tuple(new[0][2]) == (("added-index-set-2",), ("deleted-index-set-2",)), kind="ensures", why=str(new))
        S.prove(f"{label}#ensures.the_replaced_move_is_no_longer_notified@{i}", old == [], kind="ensures", why=str(old))

    # ------------------------------------------------------------------ default-criteria lookup is the only isinstance probe
    def run_default(I):
        log = []
        I.loader.models["ase.atoms"].attrs["Atoms"] = Builtin("Atoms", lambda I_, a, k: AtomsSer(I_, 0, tag="empty"))
        sim = I.call(I.get_class("quansino.mc.canonical.Canonical"), [AtomsSer(I, 2)], {"seed": 1})
        move = Strict("move", protocol_members(I, "Move"), log)
        I.call(I.getattr(sim, "add_move"), [move], {})
        return log

    for i, p in enumerate(S.explore(run_default, "add_move[no criteria]")):
        S.prove(f"{MC}.add_move#ensures.bare_move_without_criteria_is_refused_not_probed_beyond_isinstance@{i}",
                p.status == "raise" and p.exc.cls_name == "ValueError", kind="ensures", why=f"{p.status} {p.exc!r}")
    return meta
