"""C04 — energies used for acceptance belong to the configuration they describe.

Real drivers (Canonical, Isobaric, GrandCanonical) are built by their constructors on an Atoms
heap model with the calculator cache-protocol model (pyvc/models/calc_model.py), the invariant is
established by the real validate_simulation, then TWO consecutive trials run through the real
step / move / criteria / save_state / revert_state code (the second trial starts from whatever
the first left behind: accepted, rejected or failed).  The true energy is an uninterpreted
function of the configuration.
"""
from __future__ import annotations

import z3

from contracts.trial_common import (ContractCriteria, OpaqueOp, adopt_filtered, atoms_restored, checker, install, positive_trial_volume, run_trials, snapshot)
from pyvc.models.arrays import SArr, generic_index, zint
from pyvc.models.atoms_heap import AtomsHeap
from pyvc.models.calc_model import arrays_equal, config_equal, rows_equal_z3
from pyvc.values import Sym, Tensor, to_z3


def R(x):
    return to_z3(x, "real")


CASES = {
    "Canonical+DisplacementMove": dict(driver="quansino.mc.canonical.Canonical", kw={}, move="disp"),
    "Isobaric+CellMove": dict(driver="quansino.mc.isobaric.Isobaric", kw={"temperature": None, "pressure": None}, move="cell"),
    "Isobaric+DisplacementMove": dict(driver="quansino.mc.isobaric.Isobaric", kw={"temperature": None, "pressure": None}, move="disp"),
    "GrandCanonical+ExchangeMove": dict(driver="quansino.mc.gcmc.GrandCanonical", kw={}, move="exchange", extra_arrays=(("initial_magmoms", (), "float"),)),
    "Isobaric+CellMove[FixAtoms]": dict(driver="quansino.mc.isobaric.Isobaric", kw={"temperature": None, "pressure": None}, move="cell", constraints=("FixAtoms",)),
    "Canonical+DisplacementMove[rebuilt from a restart file: reference energy known, calculator fresh]": dict(driver="quansino.mc.canonical.Canonical", kw={}, move="disp", restarted=True),
    "Isobaric+CellMove[rebuilt from a restart file: reference energy known, calculator fresh]": dict(driver="quansino.mc.isobaric.Isobaric", kw={"temperature": None, "pressure": None}, move="cell", restarted=True),
    "GrandCanonical+DisplacementMove": dict(driver="quansino.mc.gcmc.GrandCanonical", kw={}, move="disp"),
    # a composite of two displacement moves (any labels, 0 included): a trial that moved atoms reaches its criteria and is saved or reverted
    "Canonical+CompositeDisplacementMove": dict(driver="quansino.mc.canonical.Canonical", kw={}, move="disp2"),
    "GrandCanonical+ExchangeMove then DisplacementMove": dict(driver="quansino.mc.gcmc.GrandCanonical", kw={}, move="exchange", second="disp"),
}


def make_sim(I, case, stateful=False, ntrials=2):
    atoms, calc, oracle, n = install(I, stateful=stateful, extra_arrays=tuple(case.get("extra_arrays", ())), constraints=tuple(case.get("constraints", ())))
    kw = {k: (I.path.fresh(k) if v is None else v) for k, v in case["kw"].items()}
    T = I.path.fresh("T")
    I.path.assume(T.t > 0)
    kw["temperature"] = T
    if "GrandCanonical" in case["driver"]:
        m = I.path.fresh("m_template", "int")
        I.path.assume(m.t >= 1)
        kw["exchange_atoms"] = AtomsHeap(I, n=m, tag="X")
        I.path.ghost.setdefault("array_sums", {})
        kw["number_of_exchange_particles"] = I.path.fresh("N0", "int")
        I.path.assume(kw["number_of_exchange_particles"].t >= 0)
    sim = I.call(I.get_class(case["driver"]), [atoms], dict(kw, seed=1, max_cycles=ntrials))
    labels = SArr.base(I, "labels", n, (), "int")
    checks = []
    if case["move"] == "disp":
        mv = I.call(I.get_class("quansino.moves.displacement.DisplacementMove"), [labels, OpaqueOp((1, 3))], {})
    elif case["move"] == "disp2":
        mv1 = I.call(I.get_class("quansino.moves.displacement.DisplacementMove"), [labels, OpaqueOp((1, 3))], {})
        mv2 = I.call(I.get_class("quansino.moves.displacement.DisplacementMove"), [labels.like(labels.term), OpaqueOp((1, 3))], {})
        mv1.attrs["check_move"] = checker(I, checks)
        mv2.attrs["check_move"] = checker(I, checks)
        mv = I.binop("+", mv1, mv2)
    elif case["move"] == "cell":
        mv = I.call(I.get_class("quansino.moves.cell.CellMove"), [OpaqueOp((3, 3), post=positive_trial_volume)], {"scale_atoms": I.path.fresh("scale_atoms", "bool")})
    else:
        mv = I.call(I.get_class("quansino.moves.exchange.ExchangeMove"), [labels, OpaqueOp((1, 3))], {"bias_towards_insert": I.path.fresh("bias")})
    mv.attrs["check_move"] = checker(I, checks)
    I.call(I.getattr(sim, "add_move"), [mv], {"name": "m", "criteria": ContractCriteria()})
    if case.get("second") == "disp":
        mv2 = I.call(I.get_class("quansino.moves.displacement.DisplacementMove"), [labels.like(labels.term), OpaqueOp((1, 3))], {})
        mv2.attrs["check_move"] = checker(I, [])
        I.call(I.getattr(sim, "add_move"), [mv2], {"name": "d", "criteria": ContractCriteria()})
    if case.get("restarted"):
        # from_dict restored the reference energy of the current configuration; the re-attached calculator has computed nothing yet
        sim.attrs["context"].attrs["last_potential_energy"] = oracle.energy(I, atoms)
    I.call(I.getattr(sim, "validate_simulation"), [], {})
    return sim, atoms, calc, oracle, mv


def build(S, tier):
    meta = {"assumptions": [
        "ASE calculator cache protocol as in pyvc/models/calc_model.py (TRUSTED); the true energy is an uninterpreted function of (positions, numbers, cell); equality of configurations is decided at a generic row",
        "ASE Atoms heap contracts (pyvc/models/atoms_heap.py); operation results and geometric checks are opaque",
        "two consecutive trials from the state established by the real validate_simulation; longer histories by the invariant (the second trial already starts from every outcome of the first)",
        "Hamiltonian moves are outside this check (the statement excepts them from the evaluation count); their energies are C02/C14"],
        "undecided_clauses": []}

    for cname, case in CASES.items():
        for stateful in (False, True):
            if stateful and "GrandCanonical" not in cname:
                continue
            if case.get("second") and not stateful:
                continue            # stateless and result-caching are the same model; per-atom internals matter only when the count changes
            tag = f"{cname}{'[stateful calculator]' if stateful else ''}"

            def run(I, case=case, stateful=stateful):
                sim, atoms, calc, oracle, mv = make_sim(I, case, stateful)
                ev0 = calc.evals
                names = run_trials(I, sim, ["m", "d"] if case.get("second") else ["m", "m"])
                hist = list(sim.attrs["move_history"])
                ev_trials = calc.evals - ev0
                reported = I.call(I.getattr(atoms, "get_potential_energy"), [], {})       # what the logger would print
                ev_log = calc.evals - ev0 - ev_trials
                return dict(sim=sim, atoms=atoms, calc=calc, oracle=oracle, hist=hist, ev_trials=ev_trials, ev_log=ev_log, reported=reported)

            label = f"trial:{tag}"
            paths = S.explore(run, label, max_paths=3000)
            nfull = 0
            for i, p in enumerate(paths):
                adopt_filtered(S, p, prefix=f"[{tag}]")
                if p.status in ("unsupported", "cut"):
                    continue
                if p.status != "return":
                    S.prove(f"{label}#noraise@{i}", False, kind="noraise", why=f"raises {p.exc!r}")
                    continue
                nfull += 1
                v = p.value
                I = p.interp
                sim, atoms, calc, ctx = v["sim"], v["atoms"], v["calc"], v["sim"].attrs["context"]
                hy = lambda: list(I.path.pc)
                E_now = v["oracle"].energy(I, atoms)          # from-scratch energy of the current configuration
                S.prove(f"{label}#ensures.reported_energy_is_that_of_the_current_configuration@{i}", R(v["reported"]) == R(E_now), hyps=hy())
                S.prove(f"{label}#ensures.reference_energy_is_that_of_the_current_configuration@{i}", R(ctx.attrs["last_potential_energy"]) == R(E_now), hyps=hy())
                lp = ctx.attrs.get("last_positions")
                okp = isinstance(lp, SArr)
                S.prove(f"{label}#ensures.remembered_positions_exist@{i}", okp, kind="ensures")
                if okp:
                    S.prove(f"{label}#ensures.remembered_positions_equal_current@{i}", arrays_equal(I, lp, atoms.arrays["positions"]), kind="ensures",
                            why="context.last_positions differs from atoms.positions at some row (or in length)")
                if "last_cell" in ctx.attrs:
                    S.prove(f"{label}#ensures.remembered_cell_equals_current@{i}",
                            z3.And([R(a) == R(b) for a, b in zip(ctx.attrs["last_cell"].array.data, atoms.cell.array.data)]), hyps=hy())
                reached = sum(1 for h in v["hist"] if h[1] is not None)
                S.prove(f"{label}#ensures.one_evaluation_per_trial_that_reached_its_criteria@{i}", v["ev_trials"] == reached, kind="ensures",
                        why=f"{v['ev_trials']} evaluations for {reached} trials that reached the criteria (history {[h[1] if isinstance(h[1], (bool, type(None))) else 'sym' for h in v['hist']]})")
                if not case.get("restarted"):     # a calculator re-attached after a restart has nothing cached until it is first asked
                    S.prove(f"{label}#ensures.logging_the_energy_costs_no_evaluation@{i}", v["ev_log"] == 0, kind="ensures", why=f"{v['ev_log']} evaluation(s) to report the current energy")
                # cache coherence: what the calculator believes is what is true
                if isinstance(calc.atoms, AtomsHeap) and "energy" in calc.results:
                    E_cache = v["oracle"].energy(I, calc.atoms)
                    S.prove(f"{label}#inv.cached_results_belong_to_the_cached_configuration@{i}", R(calc.results["energy"]) == R(E_cache), hyps=hy())
            S.prove(f"{label}#cover.complete_paths", nfull >= 4, kind="cover", why=f"{nfull} complete two-trial paths")
    for fn in ("quansino.mc.contexts.Context.save_state", "quansino.mc.contexts.Context.revert_state", "quansino.mc.contexts.DisplacementContext.save_state",
               "quansino.mc.contexts.DisplacementContext.revert_state", "quansino.mc.contexts.DeformationContext.save_state", "quansino.mc.contexts.DeformationContext.revert_state",
               "quansino.mc.contexts.ExchangeContext.save_state", "quansino.mc.contexts.ExchangeContext.revert_state",
               "quansino.mc.canonical.Canonical.revert_state", "quansino.mc.canonical.Canonical.validate_simulation", "quansino.mc.isobaric.Isobaric.revert_state",
               "quansino.mc.isobaric.Isobaric.validate_simulation", "quansino.mc.gcmc.GrandCanonical.revert_state", "quansino.mc.gcmc.GrandCanonical.save_state",
               "quansino.mc.core.MonteCarlo.step", "quansino.mc.core.MonteCarlo.validate_simulation"):
        S.register_function(S.new_interp(), fn, 1)
    return meta
