"""C11 — a displacement move moves only the chosen particle.

The real DisplacementMove.__init__/set_labels/__call__/attempt_displacement/register_* and
CompositeDisplacementMove.__call__ run on a label array and positions of SYMBOLIC length (array
terms, pyvc/models/arrays.py) with an opaque operation (fresh (1,3) vector per call) and an opaque
geometric check (fresh boolean per call).  The attempt loop is cut by its invariant "positions are
the pre-trial positions at the head of every attempt".  Postconditions are stated for a generic
atom row, i.e. for the whole position array.
"""
from __future__ import annotations

import z3

from pyvc import ops
from pyvc.models.arrays import LabelSet, SArr, generic_index, install_numpy, zint
from pyvc.models.ase_model import RngModel
from pyvc.models.atoms_heap import AtomsHeap
from pyvc.objects import Builtin, Ext, Obj
from pyvc.solver import CutPath
from pyvc.values import Sym, Tensor, to_z3

DM = "quansino.moves.displacement.DisplacementMove"
CDM = "quansino.moves.displacement.CompositeDisplacementMove"


def R(x):
    return to_z3(x, "real")


def rows_equal(a, b):
    return z3.And([R(x) == R(y) for x, y in zip(a.data, b.data)])


class OpaqueOperation(Ext):
    type_name = "Operation(opaque)"

    def __init__(self):
        self.outs = []

    def py_getattr(self, I, name):
        if name == "calculate":
            def calc(I_, a, k):
                v = Tensor((1, 3), [I_.path.fresh(f"v{len(self.outs)}_{d}") for d in range(3)])
                self.outs.append(v)
                return v
            return Builtin("calculate", calc)
        if name == "to_dict":
            return Builtin("to_dict", lambda I_, a, k: {"name": "Opaque"})
        raise AttributeError(name)

    def py_truth(self, I):
        return True


def attempt_loop_contract(I, node, frame):
    """loop contract of DisplacementMove.attempt_displacement (`for _ in range(self.max_attempts)`)"""
    atoms = frame.locals["atoms"]
    old = frame.locals["old_positions"]
    n = atoms.n()

    def inv():
        p = generic_index(I, n, "inv_p")
        return rows_equal(atoms.arrays["positions"].at(I, p), old.at(I, p))
    I.path.oblige(DM + ".attempt_displacement#loop[0].init", inv(), kind="loop")
    from pyvc.models.arrays import assign_in_place
    assign_in_place(atoms.arrays["positions"], old.like(old.term))          # havoc + assume the invariant (object identity kept)
    more = I.path.fresh("another_attempt", "bool")
    if I.path.branch(more.t):
        yield from I.exec_loop_body(node, frame)           # may `return True`
        I.path.oblige(DM + ".attempt_displacement#loop[0].preserve", inv(), kind="loop")
        raise CutPath()


def build(S, tier):
    meta = {"assumptions": [
        "numpy contracts of pyvc/models/arrays.py; ASE set_positions without an interfering constraint stores its argument ('when no constraint interferes')",
        "operation.calculate and check_move are opaque (any (1,3) vector, any boolean, per call)",
        "the attempt loop is abstracted by its invariant (positions = pre-trial positions at the head of each attempt)",
        "composite: 3 sub-moves over one shared label array; the count clause 'min(n, eligible)' is only exercised by the bounded native stand-in"],
        "undecided_clauses": ["composite displaces exactly min(n, eligible) particles when nothing vetoes (cardinality of label sets): bounded native check only"]}

    def setup(I, preselect, n_moves=1, check="symbolic", unroll=None):
        install_numpy(I)
        if unroll is None:
            I.loop_contracts[(DM + ".attempt_displacement", 0)] = attempt_loop_contract
        n = I.path.fresh("n", "int")
        I.path.assume(n.t >= 0)
        atoms = AtomsHeap(I, n=n, tag="A")
        labels = SArr.base(I, "labels", n, (), "int")
        rng = RngModel()
        ctx = I.new_obj("quansino.mc.contexts.DisplacementContext", atoms=atoms, rng=rng, _moving_indices=[])
        moves = []
        for j in range(n_moves):
            op = OpaqueOperation()
            mv = I.call(I.get_class(DM), [labels, op], {})
            checks = []

            def chk(I_, a, k, checks=checks):
                b = I_.path.fresh(f"check{len(checks)}", "bool") if check == "symbolic" else True
                checks.append(b)
                return b
            mv.attrs["check_move"] = Builtin("check_move", chk)
            if unroll is not None:
                mv.attrs["max_attempts"] = unroll
            mv._op, mv._checks = op, checks
            moves.append(mv)
        if preselect:
            pre = I.path.fresh("preselected", "int")
            moves[0].attrs["to_displace_labels"] = pre
        P0 = atoms.arrays["positions"].like(atoms.arrays["positions"].term)       # a frozen copy: the live array is updated in place
        return dict(atoms=atoms, labels=labels, rng=rng, ctx=ctx, moves=moves, P0=P0, n=n)

    # ------------------------------------------------------------------ single move
    # (each also with the attempt loop EXECUTED for max_attempts = 2 instead of abstracted by its invariant: bounded in the number of
    # attempts, independent of how the loop restores a vetoed attempt)
    # `prior`: the shared context was last used by ANOTHER move (its index set is arbitrary) and this move has displaced some label
    # before (any value, the present target included) -- any driver with two displacement moves produces such a state
    for preselect, unroll, prior in ((False, None, False), (True, None, False), (False, 2, False), (True, 2, False), (False, None, True), (True, None, True)):
        def run(I, preselect=preselect, unroll=unroll, prior=prior):
            st = setup(I, preselect, unroll=unroll)
            mv = st["moves"][0]
            if prior:
                m_prior = I.path.fresh("n_indices_left_by_another_move", "int")
                I.path.assume(m_prior.t >= 0)
                st["ctx"].attrs["_moving_indices"] = SArr.base(I, "indices_left_by_another_move", m_prior, (), "int")
                mv.attrs["displaced_labels"] = I.path.fresh("label_displaced_last_time", "int")
            pre = mv.attrs["to_displace_labels"]
            ndraws0 = len(st["rng"].draws)
            r = I.call(mv, [st["ctx"]], {})
            return dict(st, r=r, mv=mv, pre=pre, ndraws0=ndraws0)

        tag = ("pre-selected target" if preselect else "random target") + (f", attempt loop unrolled, max_attempts={unroll}" if unroll else "") + (", context last used by another move" if prior else "")
        label = f"{DM}.__call__[{tag}]"
        paths = S.explore(run, label, max_paths=200)
        for fn in ("__call__", "attempt_displacement", "set_labels", "register_success", "register_failure", "__init__"):
            S.register_function(S.new_interp(), f"{DM}.{fn}", len(paths))
        kinds = set()
        for i, p in enumerate(paths):
            S.adopt(p, prefix=f"[{tag}]")
            if p.status in ("unsupported", "cut"):
                kinds.add(p.status)
                continue
            if p.status != "return":
                S.prove(f"{label}#noraise@{i}", False, kind="noraise", why=f"raises {p.exc!r}")
                continue
            v = p.value
            I = p.interp
            mv, atoms, L, P0, n, rng = v["mv"], v["atoms"], v["labels"], v["P0"], v["n"], v["rng"]
            res = v["r"]
            S.prove(f"{label}#ensures.preselection_cleared@{i}", mv.attrs.get("to_displace_labels") is None, kind="ensures")
            pg = generic_index(I, n, "p")
            newp, oldp, lab = atoms.arrays["positions"].at(I, pg), P0.at(I, pg), L.at(I, pg)
            hy = lambda: list(I.path.pc)
            if res is True:
                kinds.add("success")
                ell = mv.attrs.get("displaced_labels")
                okl = isinstance(ell, (Sym, int))
                S.prove(f"{label}#ensures.displaced_label_recorded@{i}", okl, kind="ensures", why=repr(ell))
                if not okl:
                    continue
                vv = mv._op.outs[-1]
                moved = zint(lab) == zint(ell)
                want = [R(oldp.get((d,))) + z3.If(moved, R(vv.get((0, d))), 0) for d in range(3)]
                S.prove(f"{label}#ensures.exactly_the_atoms_of_the_selected_label_move_by_one_common_vector@{i}",
                        z3.And([R(newp.get((d,))) == want[d] for d in range(3)]), hyps=hy())
                if preselect:
                    S.prove(f"{label}#ensures.preselected_label_is_the_one_displaced@{i}", zint(ell) == zint(v["pre"]), hyps=hy())
                    S.prove(f"{label}#ensures.no_draw_for_a_preselected_target@{i}", len(rng.draws) == v["ndraws0"], kind="ensures")
                else:
                    S.prove(f"{label}#ensures.selected_label_is_non_negative_and_present@{i}", zint(ell) >= 0, hyps=hy())
                    S.prove(f"{label}#ensures.negative_labels_never_displaced@{i}",
                            z3.Implies(zint(lab) < 0, z3.And([R(newp.get((d,))) == R(oldp.get((d,))) for d in range(3)])), hyps=hy())
                    S.prove(f"{label}#ensures.one_unweighted_draw_among_unique_labels@{i}",
                            len(rng.draws) == v["ndraws0"] + 1 and rng.draws[-1][0] == "choice_uniform" and isinstance(rng.draws[-1][1][0], LabelSet)
                            and rng.draws[-1][1][0].source.uid == mv.attrs["labels"].uid, kind="ensures", why=str([d[0] for d in rng.draws]))
                S.prove(f"{label}#ensures.accepted_attempt_passed_the_check@{i}", bool(mv._checks) and to_z3(mv._checks[-1], "bool"), hyps=hy())
            else:
                kinds.add("failure")
                S.prove(f"{label}#ensures.failure_is_reported_as_False@{i}", res is False, kind="ensures", why=repr(res))
                S.prove(f"{label}#ensures.failure_changes_no_position@{i}", rows_equal(newp, oldp), hyps=hy())
                S.prove(f"{label}#ensures.failure_clears_displaced_label@{i}", mv.attrs.get("displaced_labels") is None, kind="ensures")
                if not preselect and len(rng.draws) == v["ndraws0"]:
                    # no eligible particle: every row carries a label the filter rejects
                    us = mv.attrs["unique_labels"]
                    if not isinstance(us, LabelSet):
                        S.unsupported.append((label, f"unique_labels is a {type(us).__name__}, not np.unique(labels[<filter>])"))
                        continue
                    S.prove(f"{label}#ensures.no_eligible_particle_means_no_non_negative_label@{i}",
                            z3.Implies(zint(lab) >= 0, z3.BoolVal(False)), hyps=hy() + [us.empty_means(I, pg)])
            S.adopt(p, prefix=f"[{tag}]post:")
        if "unsupported" not in kinds:
            S.prove(f"{label}#cover.success_failure_and_loop_paths", ({"success", "failure", "cut"} if unroll is None else {"success", "failure"}) <= kinds, kind="cover", why=str(kinds))

    # ------------------------------------------------------------------ composite of 3 moves
    def run_comp(I):
        st = setup(I, False, n_moves=3)
        comp = I.call(I.get_class(CDM), [list(st["moves"])], {})
        st["moves"][1].attrs["to_displace_labels"] = I.path.fresh("stale_preselection", "int")
        r = I.call(comp, [st["ctx"]], {})
        return dict(st, r=r, comp=comp)

    label = f"{CDM}.__call__[3 moves]"
    paths = S.explore(run_comp, label, max_paths=1500)
    S.register_function(S.new_interp(), CDM + ".__call__", len(paths))
    nret = 0
    for i, p in enumerate(paths):
        if p.status in ("unsupported", "cut"):
            S.adopt(p, prefix="[composite]")
            continue
        if p.status != "return":
            S.prove(f"{label}#noraise@{i}", False, kind="noraise", why=f"raises {p.exc!r}")
            continue
        nret += 1
        S.adopt(p, prefix="[composite]")
        v = p.value
        I = p.interp
        comp, atoms, L, P0, n = v["comp"], v["atoms"], v["labels"], v["P0"], v["n"]
        dl = comp.attrs.get("displaced_labels")
        S.prove(f"{label}#ensures.one_record_per_sub_move@{i}", isinstance(dl, list) and len(dl) == 3, kind="ensures", why=repr(dl))
        if not (isinstance(dl, list) and len(dl) == 3):
            continue
        moved = [x for x in dl if x is not None]
        hy = list(I.path.pc)
        S.prove(f"{label}#ensures.never_the_same_particle_twice@{i}",
                z3.And([zint(a) != zint(b) for k_, a in enumerate(moved) for b in moved[k_ + 1:]] or [z3.BoolVal(True)]), hyps=hy)
        S.prove(f"{label}#ensures.reports_how_many_it_moved@{i}", I.getattr(comp, "number_of_moved_particles") == len(moved) and v["r"] is (len(moved) > 0), kind="ensures",
                why=f"{v['r']!r} for {len(moved)} moved")
        pg = generic_index(I, n, "p")
        newp, oldp, lab = atoms.arrays["positions"].at(I, pg), P0.at(I, pg), L.at(I, pg)
        want = [R(oldp.get((d,))) for d in range(3)]
        for mv, rec in zip(v["moves"], dl):
            if rec is None:
                continue
            vv = mv._op.outs[-1]
            for d in range(3):
                want[d] = want[d] + z3.If(zint(lab) == zint(rec), R(vv.get((0, d))), 0)
        S.prove(f"{label}#ensures.each_recorded_particle_displaced_exactly_once_others_unmoved@{i}",
                z3.And([R(newp.get((d,))) == want[d] for d in range(3)]), hyps=list(I.path.pc))
        S.adopt(p, prefix="[composite]post:")
    if not any(q.status == "unsupported" for q in paths):
        S.prove(f"{label}#cover.return_paths", nret >= 4, kind="cover", why=f"{nret} complete paths")
    # ------------------------------------------------------------------ the candidate list stays "the non-negative labels" when atoms come and go
    # (the selection clauses above start from a freshly constructed move; an exchange notifies the move of new / removed atoms)
    from contracts import C05
    n0, u0 = len(S.obligations), len(S.unsupported)
    C05.build(S, tier, parts=("labels",))
    if len(S.unsupported) == u0:        # a part of it out of reach is reported as such, not as a missing cover
        S.prove("candidates_after_atom_count_changes#cover.label_contract_of_on_atoms_changed_rechecked", len(S.obligations) - n0 >= 20, kind="cover", why=str(len(S.obligations) - n0))
    return meta
